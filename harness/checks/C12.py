"""C12 stereo signs: theorems over the regenerated tables + exhaustive correspondence of the three
_translate_*_sign functions and the geometric sign functions + RDKit agreement search."""
import itertools
import re
import random

import boot  # noqa
import common
import coqcases
import corpus
from coqfmt import z, zraw, b, lst, opt, tup

replay = common.generic_replay

EXN = {'KeyError': 'KeyError', 'ValueError': 'ValueError', 'IndexError': 'IndexError', 'TypeError': 'TypeError',
       'StopIteration': 'StopIteration', 'AttributeError': 'AttributeError'}


def res(fn):
    try:
        return 'Ok ' + b(fn())
    except Exception as e:
        return 'Err ' + EXN.get(type(e).__name__, 'OtherError')


def corr_translate(ck):
    from chython import smiles
    cases = []
    meta = []
    # ---- tetrahedrons
    for smi in ('[C@](F)(Cl)(Br)I', '[C@H](F)(Cl)Br', '[C@]([H])(F)(Cl)Br', 'F[C@](Cl)(Br)[H]', 'C[C@H]1CCCO1'):
        m = smiles(smi)
        n = next(k for k, a in m.atoms() if a.stereo is not None)
        order = m.stereogenic_tetrahedrons[n]
        hs = [k for k, a in m.atoms() if a.atomic_number == 1]
        nbrs = list(m._bonds[n])
        pool = nbrs + [k for k in m._atoms if k not in nbrs and k != n][:1]
        envs = []
        for r in (2, 3, 4, 5):
            envs.extend(itertools.permutations(pool, r) if r <= len(pool) else [])
        envs.append((nbrs[0], nbrs[0], nbrs[1]))
        envs.append((nbrs[0], nbrs[1], nbrs[1], nbrs[2]))
        for env in envs:
            for s in (True, False):
                got = res(lambda: m._translate_tetrahedron_sign(n, list(env), s))
                ishf = f'(fun x => zmem x {lst(hs, zraw)})'
                cases.append(f'pyres_eqb Bool.eqb (translate_th {ishf} {lst(order, zraw)} {lst(env, zraw)} {b(s)}) ({got})')
                meta.append(('th', smi, n, list(env), s, got))
                ck.case(('th', smi, env, s), nontrivial=got.startswith('Ok'))
                ck.count('th:' + got.split()[0] + (' ' + got.split()[1] if got.startswith('Err') else ''))
    # ---- cis/trans and allenes
    def envterm(e):
        return f'({zraw(e[0])}, {zraw(e[1])}, {opt(e[2], zraw)}, {opt(e[3], zraw)})'
    for smi in ('F/C(Cl)=C(Br)/I', 'F/C=C/Cl', 'F/C([H])=C([H])/Cl', 'F/C=C(/Cl)Br', 'F/C(Cl)=C/Br', 'F/C=C=C=C/Cl',
                'C(\\F)([H])=C/Cl'):
        m = smiles(smi)
        reg = m.stereogenic_cis_trans
        hs = [k for k, a in m.atoms() if a.atomic_number == 1]
        ishf = f'(fun x => zmem x {lst(hs, zraw)})'
        for (n, mm) in list(reg):
            for a, c in ((n, mm), (mm, n)):
                for nn, nm in itertools.product(list(m._atoms), repeat=2):
                    for s in (True, False):
                        got = res(lambda: m._translate_cis_trans_sign(a, c, nn, nm, s))
                        e1 = reg.get((a, c))
                        e2 = reg.get((c, a))
                        cases.append(f'pyres_eqb Bool.eqb (translate_ct {ishf} {opt(e1, envterm)} {opt(e2, envterm)} {zraw(nn)} {zraw(nm)} {b(s)}) ({got})')
                        meta.append(('ct', smi, (a, c), (nn, nm), s, got))
                        ck.case(('ct', smi, a, c, nn, nm, s), nontrivial=got.startswith('Ok'))
                        ck.count('ct:' + got.split()[0])
    for smi in ('F[C@](Cl)=C=C(Br)I'.replace('[C@](Cl)', 'C(Cl)'), 'FC(Cl)=[C@]=C(Br)I', 'FC=[C@@]=CCl', 'FC([H])=[C@]=C([H])Cl'):
        m = smiles(smi)
        reg = m.stereogenic_allenes
        hs = [k for k, a in m.atoms() if a.atomic_number == 1]
        ishf = f'(fun x => zmem x {lst(hs, zraw)})'
        for c, env in reg.items():
            for nn, nm in itertools.product(list(m._atoms), repeat=2):
                for s in (True, False):
                    got = res(lambda: m._translate_allene_sign(c, nn, nm, s))
                    cases.append(f'pyres_eqb Bool.eqb (translate_al {ishf} {envterm(env)} {zraw(nn)} {zraw(nm)} {b(s)}) ({got})')
                    meta.append(('al', smi, c, (nn, nm), s, got))
                    ck.case(('al', smi, c, nn, nm, s), nontrivial=got.startswith('Ok'))
                    ck.count('al:' + got.split()[0])
    # ---- geometric sign functions on exact integers
    from chython.algorithms import stereo as st
    rng = random.Random(ck.seed)
    npts = 300 if ck.tier == 'quick' else 3000
    for i in range(npts):
        lim = rng.choice([1, 2, 5, 100])
        p3 = [tuple(rng.randint(-lim, lim) for _ in range(3)) for _ in range(4)]
        p2 = [tuple(rng.randint(-lim, lim) for _ in range(2)) for _ in range(4)]
        mark = rng.choice([-1, 1])
        t3 = lambda p: '(' + ', '.join(zraw(x) for x in p) + ')'
        v = st._pyramid_sign(*p3)
        cases.append(f'(pyramid_sign {" ".join(t3(p) for p in p3)} =? {zraw(v)})')
        meta.append(('pyr', p3, v))
        v = st._cis_trans_sign(*p2)
        cases.append(f'(cis_trans_sign {" ".join(t3(p) for p in p2)} =? {zraw(v)})')
        meta.append(('cts', p2, v))
        v = st._allene_sign(mark, *p2[1:])
        cases.append(f'(allene_sign {zraw(mark)} {" ".join(t3(p) for p in p2[1:])} =? {zraw(v)})')
        meta.append(('als', mark, p2[1:], v))
        ck.case(('geom', i, tuple(p3), tuple(p2)), nontrivial=True)
        ck.count('geom', 3)
    ok, failing, log = coqcases.run_cases('c12', 'Stereo', cases)
    ck.oblige('correspondence: _translate_tetrahedron/cis_trans/allene_sign and sign functions == Coq model', ok and not failing,
              'correspondence', log or str([meta[i] for i in failing[:5]]))
    ck.extra['correspondence_cases'] = len(cases)
    ck.sample({'model_call': cases[0], 'meta': repr(meta[0])})
    ck.sample({'model_call': cases[len(cases) // 2], 'meta': repr(meta[len(cases) // 2])})
    if not ok or failing:
        ck.unchecked('correspondence Stereo model vs chython/algorithms/stereo.py', log[-1500:], [repr(meta[i]) for i in failing[:20]])
    return ok and not failing


# ---------------------------------------------------------------------------------------------------------------
# registries (coq/model/StereoRegistry.v)

def reshuffle(m, rng):
    """the same molecule with other atom numbers, another insertion order of the atoms and of every neighbour dict:
    a state that adding the atoms and bonds in that order through the public API produces"""
    new = m.copy()
    nums = list(new._atoms)
    new.remap(dict(zip(nums, rng.sample(range(1, 3 * len(nums) + 3), len(nums)))))
    keys = list(new._atoms)
    rng.shuffle(keys)
    new._atoms = {k: new._atoms[k] for k in keys}
    new._bonds = {k: dict(rng.sample(list(new._bonds[k].items()), len(new._bonds[k]))) for k in keys}
    new.flush_cache()
    return new


def registry_inputs(ck):
    """(family, molecule) pairs: cumulene chains of every length 2..6 with every end decoration (none, one, two substituents,
    explicit H), heteroatom / hypervalent / metal / charged / radical / triple-bond / special-bond environments, malformed
    valences, ring cumulenes, corpus molecules; each also with shuffled numbering and insertion orders"""
    from chython import smiles
    rng = random.Random(f'{ck.seed}:registry')
    out = []
    ends_l = ['C', 'FC', '[H]C', 'FC(Cl)', '[H]C(F)', '[H]C([H])', 'FC([H])', 'N', 'CN', 'O', 'S', 'CP', 'C[Si](C)', 'C[S](C)(C)',
              '[Li]C', 'FC(~[Pd])', 'C#CC', 'O=C', '[O-][N+](=O)C', 'FB', '[CH-]']
    ends_r = ['C', 'CF', 'C[H]', 'C(F)Cl', 'C(F)[H]', 'C([H])[H]', 'C([H])F', 'N', 'NC', 'O', 'S', 'PC', '[Si](C)C', 'S(C)(C)C',
              'C[Mg]C', 'C(F)~[Pd]', 'CC#C', 'C=O', 'C[N+](=O)[O-]', 'BF', '[CH-]']
    zoo = ['CS(=O)C', 'O=S(=O)(C)C', 'C=S(C)(C)=C', 'O=C=O', 'C=CC=C', 'C1=CC=C1', 'OS(=O)(=O)O', 'C=C=S(=O)=O', 'C=[N+]=[N-]',
           'FC(Cl)=[Fe]', 'FC(Cl)=[Si](Br)I', 'C1=CC=CC=C1', 'C1CCCCCC=C=C1', 'C1CCC=C=CCCC=C=C1', 'C1CC1=C=C1CC1', 'FC1CCC(=C=CCl)CC1',
           'C(F)(F)(F)(F)(F)F', '[Li]C(F)(Cl)Br', 'F[C](Cl)Br', 'F[C-](Cl)Br', 'F[C+](Cl)Br', '[H]C(F)(Cl)Br', '[H]C([H])(F)Cl',
           '[H]C([H])([H])F', 'C(F)(Cl)(Br)I', 'C[C@H](N)C(=O)O', 'C12(CCC1)CCC2', 'FC(Cl)(Br)~[Pd]', 'FC(Cl)(Br)[Mg]C', 'C[Al](C)C(F)(Cl)Br',
           'FC(F)(F)S(F)(F)(F)(F)F', 'O=P(O)(O)C=C', 'CC=NO', 'C/C=N/O', 'FC=C=C=C=C=C=CF', 'F/C=C/C=C/C=C\\Cl', 'c1ccccc1C=C', 'C=C1C=CC(=C)C=C1',
           'O=C1C=CC(=O)C=C1', 'N#CC=C=C', 'C[N+](C)=C=[N-]', 'C=S(=O)(=O)=C', 'C=S(=C)(=C)=C', 'O=[Xe](=O)(=O)=O', 'O=[Os](=O)(=O)=O',
           'C=C=C.C=C=C=C', '[H]C([H])=C=C([H])F', 'FC(Cl)=C=C=C=C(Br)I', 'C', '[H][H]', 'C=C', 'C#C']
    for smi in zoo:
        out.append(('zoo', smi))
    for k in range(0, 5):
        for l in ends_l:
            for j, r in enumerate(ends_r):
                # quick: every right end for the first 9 left ends of plain double bonds and allenes, a rotating third otherwise
                if ck.tier == 'quick' and not ((k < 2 and ends_l.index(l) < 6) or (j + ends_l.index(l) + k) % 4 == 0):
                    continue
                out.append((f'chain{k + 2}', f'{l}={"C=" * k}{r}'))
    npool = 80 if ck.tier == 'quick' else 1200
    for smi in corpus.sample(corpus.lipo(), npool, ck.seed, 'c12reg'):
        out.append(('corpus', smi))
    mols = []
    for fam, smi in out:
        try:
            m = smiles(smi)
        except Exception:
            ck.count('registry:unreadable input skipped')
            continue
        if m is None or not hasattr(m, '_bonds'):
            continue
        mols.append((fam, smi, m))
        if ck.tier != 'quick' or not fam.startswith('chain') or len(mols) % 3 == 0:
            mols.append((fam + ':shuffled', smi, reshuffle(m, rng)))
    return mols


def reg_py(m):
    """the registries of the real code, as plain Python data (dict -> list of items, in insertion order)"""
    return {'tetrahedrons': list(m.tetrahedrons), 'cumulenes': [list(p) for p in m.cumulenes],
            'sg_th': [(n, list(e)) for n, e in m.stereogenic_tetrahedrons.items()],
            'sg_cum': [(list(p), tuple(e)) for p, e in m.stereogenic_cumulenes.items()],
            'sg_al': list(m.stereogenic_allenes.items()), 'sg_ct': list(m.stereogenic_cis_trans.items()),
            'al_terminals': list(m._stereo_allenes_terminals.items()), 'al_centers': list(m._stereo_allenes_centers.items()),
            'ct_centers': list(m._stereo_cis_trans_centers.items()), 'ct_terminals': list(m._stereo_cis_trans_terminals.items()),
            'ct_counterpart': list(m._stereo_cis_trans_counterpart.items())}


def envterm(e):
    return f'({zraw(e[0])}, {zraw(e[1])}, {opt(e[2], zraw)}, {opt(e[3], zraw)})'


def zzterm(p):
    return f'({zraw(p[0])}, {zraw(p[1])})'


def reg_term(r):
    return ('(mkReg ' + ' '.join([
        lst(r['tetrahedrons'], zraw), lst([lst(p, zraw) for p in r['cumulenes']]),
        lst([tup(zraw(n), lst(e, zraw)) for n, e in r['sg_th']]),
        lst([tup(lst(p, zraw), envterm(e)) for p, e in r['sg_cum']]),
        lst([tup(zraw(c), envterm(e)) for c, e in r['sg_al']]),
        lst([tup(zzterm(k), envterm(e)) for k, e in r['sg_ct']]),
        lst([tup(zraw(c), zzterm(t)) for c, t in r['al_terminals']]),
        lst([tup(zraw(t), zraw(c)) for t, c in r['al_centers']]),
        lst([tup(zraw(t), zzterm(c)) for t, c in r['ct_centers']]),
        lst([tup(zraw(t), zzterm(c)) for t, c in r['ct_terminals']]),
        lst([tup(zraw(t), zraw(c)) for t, c in r['ct_counterpart']])]) + ')')


REG_EXTRA = '''
Definition reg_ok (g : mol) (r : registries) : bool :=
  match registries_real g with Ok r' => reg_eqb r' r | Err _ => false end && pops_single el_double g.
Definition reg_err (g : mol) (e : pyexn) : bool :=
  match registries_real g with Ok _ => false | Err e' => pyexn_eqb e e' end.
'''


def corr_registries(ck):
    """the registries of chython/algorithms/stereo.py on real molecules == coq/model/StereoRegistry.v (every registry compared
    as an ordered list, i.e. including dict insertion order), and every set.pop() of `cumulenes` acts on a singleton"""
    import coqmol
    cases, meta = [], []
    for fam, smi, m in registry_inputs(ck):
        g = coqmol.mol_term(m)
        try:
            r = reg_py(m)
        except Exception as e:
            cases.append(f'reg_err {g} {EXN.get(type(e).__name__, "OtherError")}')
            meta.append((fam, smi, 'raises ' + type(e).__name__))
            ck.count('registry:raises ' + type(e).__name__)
            ck.case(('reg', fam, smi), nontrivial=True)
            continue
        cases.append(f'reg_ok {g} {reg_term(r)}')
        meta.append((fam, smi, list(m._atoms)))
        nontrivial = bool(r['sg_th'] or r['sg_cum'] or r['cumulenes'])
        ck.case(('reg', fam, smi, tuple(m._atoms)), nontrivial=nontrivial)
        ck.count('registry:' + fam.split(':')[0])
        ck.count('registry: stereogenic tetrahedrons', len(r['sg_th']))
        ck.count('registry: cumulene paths', len(r['cumulenes']))
        ck.count('registry: stereogenic cumulenes', len(r['sg_cum']))
        ck.count('registry: allenes', len(r['sg_al']))
    ok, failing, log = coqcases.run_cases('c12reg', 'Graph Stereo StereoRegistry', cases, extra=REG_EXTRA, shard=40)
    ck.oblige('correspondence: tetrahedrons / cumulenes / stereogenic_* / _stereo_* registries == Coq model (ordered)', ok and not failing,
              'correspondence', log or str([meta[i] for i in failing[:5]]))
    ck.extra['registry_cases'] = len(cases)
    if cases:
        ck.sample({'model_call': cases[0][:600], 'meta': repr(meta[0])})
    if not ok or failing:
        directed_registry_search(ck, [meta[i] for i in failing[:20]])
        ck.unchecked('correspondence StereoRegistry model vs chython/algorithms/stereo.py registries', log[-1500:],
                     [repr(meta[i]) for i in failing[:20]])
    return ok and not failing


def registry_oracle(m):
    """independent property-level statements about the registries of one molecule, written from the docstrings:
    returns a list of complaints"""
    bad = []
    atoms, bonds = m._atoms, m._bonds
    # every cumulene path is a chain of double bonds; distinct paths share no double bond
    used = set()
    for p in m.cumulenes:
        for a, c in zip(p, p[1:]):
            if c not in bonds[a] or int(bonds[a][c]) != 2:
                bad.append(f'cumulene path {p} steps over a non-double bond {a}-{c}')
            if frozenset((a, c)) in used:
                bad.append(f'double bond {a}={c} is in two cumulene paths')
            used.add(frozenset((a, c)))
        if len(set(p)) != len(p):
            bad.append(f'cumulene path {p} repeats an atom')
    # tetrahedrons are sp3 carbons: neutral, closed shell, single bonds only, at most four of them
    for n in m.tetrahedrons:
        a = atoms[n]
        if a.atomic_number != 6 or a.charge or a.is_radical or any(int(x) != 1 for x in bonds[n].values()) or len(bonds[n]) > 4:
            bad.append(f'tetrahedrons lists atom {n} ({a.atomic_symbol}, charge {a.charge}, radical {a.is_radical}, {len(bonds[n])} bonds) which is not an sp3 carbon')
    # stereogenic tetrahedron: the environment lists exactly the non-hydrogen neighbours
    for n, env in m.stereogenic_tetrahedrons.items():
        if sorted(env) != sorted(x for x in bonds[n] if atoms[x].atomic_number != 1) or len(env) not in (3, 4) or len(bonds[n]) > 4:
            bad.append(f'stereogenic_tetrahedrons[{n}] = {env} is not the set of non-hydrogen neighbours')
    # stereogenic cumulene: the environment lists neighbours of the two ends, first end first
    for p, (n0, n1, n2, n3) in m.stereogenic_cumulenes.items():
        a, c = p[0], p[-1]
        if n0 not in bonds[a] or n1 not in bonds[c] or (n2 is not None and n2 not in bonds[a]) or (n3 is not None and n3 not in bonds[c]):
            bad.append(f'stereogenic_cumulenes[{p}] lists a non-neighbour of its end')
        if n0 == p[1] or n1 == p[-2] or n2 == p[1] or n3 == p[-2]:
            bad.append(f'stereogenic_cumulenes[{p}] lists a chain atom as substituent')
    for c, (a, e) in m._stereo_allenes_terminals.items():
        if m._stereo_allenes_centers.get(a) != c or m._stereo_allenes_centers.get(e) != c:
            bad.append(f'allene centre {c}: terminals and centres registries disagree')
    for (a, e) in m.stereogenic_cis_trans:
        if m._stereo_cis_trans_counterpart.get(a) != e and m._stereo_cis_trans_counterpart.get(e) != a:
            bad.append(f'cis/trans {a},{e}: counterpart registry disagrees')
    return bad


def directed_registry_search(ck, metas):
    """on a broken registry correspondence: property-level oracle on and around the disagreeing molecules (numbering orders)"""
    from chython import smiles
    rng = random.Random(f'{ck.seed}:regdirected')
    for fam, smi, _ in metas:
        try:
            m0 = smiles(smi)
        except Exception:
            continue
        ref = None
        for k in range(8):
            m = reshuffle(m0, rng) if k else m0
            try:
                bad = registry_oracle(m)
            except Exception as e:
                bad = [f'registry raises {type(e).__name__}: {e}']
            if bad:
                ck.counterexample(f'registry:{smi}', 'a stereo registry contradicts its documented meaning: ' + bad[0], {'smiles': smi, 'atoms': list(m._atoms)},
                                  bad[:3], 'registries as documented', 'independent reading of the docstrings',
                                  replay_py=f"from chython import smiles; m=smiles({smi!r}); print(m.cumulenes, m.stereogenic_cumulenes, m.stereogenic_tetrahedrons)")
                break
            # the number of registry entries must not depend on numbering / insertion order
            sig = (len(m.tetrahedrons), sorted(len(p) for p in m.cumulenes), len(m.stereogenic_tetrahedrons), len(m.stereogenic_cumulenes))
            if ref is None:
                ref = sig
            elif sig != ref:
                ck.counterexample(f'registry-order:{smi}', 'the stereo registries depend on atom numbering / insertion order', {'smiles': smi, 'atoms': list(m._atoms)},
                                  sig, ref, 'renumbering', replay_py=f"from chython import smiles; m=smiles({smi!r}); print(m.cumulenes)")
                break

# ---------------------------------------------------------------------------------------------------------------
# SMILES stereo marks (coq/model/StereoSmiles.v): the real writer and reader are traced (wrappers installed in this process
# only) and every mark they emit / interpret is recomputed by the model

class Trace:
    """records the arguments of MoleculeSmiles._format_atom / __ct_map (writer) and of postprocess_molecule /
    add_cis_trans_stereo (reader) while active"""

    def __enter__(self):
        from chython.containers import MoleculeContainer
        import sys
        import chython.files.daylight  # noqa
        rd = sys.modules['chython.files.daylight.smiles']
        self.cls, self.rd = MoleculeContainer, rd
        self.fa, self.ct, self.pp, self.act = (MoleculeContainer._format_atom, MoleculeContainer._MoleculeSmiles__ct_map,
                                               rd.postprocess_molecule, MoleculeContainer.add_cis_trans_stereo)
        self.atoms, self.ctmaps, self.reads, self.ctcalls = [], [], [], []
        self.aas, self.atomcalls = MoleculeContainer.add_atom_stereo, []
        tr = self

        def add_as(self, n, env, mark, **kw):
            tr.atomcalls.append((self, n, tuple(env), mark))
            return tr.aas(self, n, env, mark, **kw)

        def format_atom(self, n, adjacency, **kw):
            out = tr.fa(self, n, adjacency, **kw)
            if self._atoms[n].stereo is not None and kw.get('stereo', True):
                tr.atoms.append((self, n, {k: list(v) for k, v in adjacency.items() if isinstance(k, int)}, next(iter(adjacency)), out))
            return out

        def ct_map(self, adjacency):
            out = tr.ct(self, adjacency)
            tr.ctmaps.append((self, [k for k in adjacency if isinstance(k, int)], dict(out)))
            return out

        def postprocess(molecule, data, **kw):
            snap = {'mapping': dict(enumerate(data['mapping'])) if isinstance(data['mapping'], (list, tuple)) else dict(data['mapping']), 'stereo_atoms': dict(data['stereo_atoms']),
                    'order': {k: list(v) for k, v in data['order'].items()},
                    'stereo_bonds': {k: dict(v) for k, v in data['stereo_bonds'].items()}}
            n0, n0a = len(tr.ctcalls), len(tr.atomcalls)
            r = tr.pp(molecule, data, **kw)
            tr.reads.append((molecule, snap, tr.ctcalls[n0:], kw, [c for c in tr.atomcalls[n0a:] if c[0] is molecule]))
            return r

        def add_ct(self, n, m, n1, n2, mark, **kw):
            try:
                r = tr.act(self, n, m, n1, n2, mark, **kw)
            except Exception as e:
                tr.ctcalls.append((n, m, n1, n2, mark, type(e).__name__))
                raise
            tr.ctcalls.append((n, m, n1, n2, mark, None))
            return r

        MoleculeContainer._format_atom = format_atom
        MoleculeContainer._MoleculeSmiles__ct_map = ct_map
        MoleculeContainer.add_cis_trans_stereo = add_ct
        MoleculeContainer.add_atom_stereo = add_as
        rd.postprocess_molecule = postprocess
        return self

    def __exit__(self, *a):
        self.cls._format_atom = self.fa
        self.cls._MoleculeSmiles__ct_map = self.ct
        self.cls.add_cis_trans_stereo = self.act
        self.cls.add_atom_stereo = self.aas
        self.rd.postprocess_molecule = self.pp


def marks_inputs(ck):
    """SMILES whose stereo marks are traced: every first-atom / ring-closure / explicit-H / allene / diene family of the search
    plus corpus molecules"""
    out = ['[C@H](F)(Cl)Br', 'F[C@H](Cl)Br', 'F[C@](Cl)(Br)I', '[C@](F)(Cl)(Br)I', '[H][C@](F)(Cl)Br', 'F[C@]([H])(Cl)Br', 'F[C@](Cl)(Br)[H]',
           'O.[C@H](F)(Cl)Br', '[C@H](F)(Cl)Br.[C@@H](N)(O)C', 'N[C@@H](C)C(=O)O', 'C[C@@H]1CC[C@H](C)CC1', 'C[C@]12CC[C@H](C1)C2(C)C',
           '[C@@]1(F)(Cl)CCO1', '[C@H]1(F)CCO1', 'C1C[C@H]1C', 'O[C@]12CCC[C@]1(N)CC2', 'OC[C@H]1O[C@@H](O)[C@H](O)[C@@H](O)[C@@H]1O',
           'F/C=C/Cl', 'F/C=C\\Cl', 'C(/F)(\\Cl)=C(/Br)I', 'F/C=C/C=C/Cl', 'F/C=C/C=C\\C=C/Cl', 'C/C=C/C(/C)=C/C', 'F/C(Cl)=C(/Br)I', 'C(\\F)([H])=C/Cl',
           '[H]/C(F)=C(/[H])Cl', '[H]/C(C)=C(\\Cl)[H]', 'F/C=C=C=C/Cl', '[H]/C(F)=C=C=C(/[H])Cl', 'C1CCCCCC/C=C/1', 'F/C=C/1CCC/C1=C/Cl',
           'CC(F)=[C@]=C(Cl)Br', 'CC(F)=[C@@]=C(Cl)Br', 'FC=[C@@]=CCl', '[H]C(F)=[C@]=C([H])Cl', '[H]C(F)=[C@@]=C(Cl)[H]', 'CC(F)=[C@]=C([H])Cl',
           'C(F)(C)=[C@]=C(Cl)Br', 'C(=[C@]=C(Cl)Br)(F)C', 'FC(Cl)=C=[C@]=C=C(Br)I', 'C[C@H](N)/C=C/[C@@H](O)C',
           'N1[C@H](C)CC1', 'C[S@](=O)c1ccccc1', 'C[C@H]1CC[C@@H](/C=C/F)CC1']
    out += corpus.sample(corpus.stereo_smiles(), 60 if ck.tier == 'quick' else 1000, ck.seed, 'c12marks')
    return out


def mapped_spellings(smi, rng, k):
    """spellings of one molecule with atom-map numbers ([C@H:7]) drawn at random (NOT increasing in writing order), written by
    RDKit (independent of chython's writer): rooted at a stereo atom (first atom of the string, implicit H if it has one) and in
    random atom orders.  chython takes the map number as atom number, so positions in the string and atom numbers differ."""
    from rdkit import Chem
    rd = Chem.MolFromSmiles(smi)
    if rd is None or rd.GetNumAtoms() < 2:
        return []
    n = rd.GetNumAtoms()
    cents = [a.GetIdx() for a in rd.GetAtoms() if a.GetChiralTag() != Chem.ChiralType.CHI_UNSPECIFIED]
    out = []
    for j in range(k):
        for a, x in zip(rd.GetAtoms(), rng.sample(range(1, 2 * n + 2), n)):
            a.SetAtomMapNum(x)
        try:
            if cents and j % 2 == 0:
                out.append(Chem.MolToSmiles(rd, canonical=False, rootedAtAtom=rng.choice(cents)))
            else:
                out.extend(Chem.MolToRandomSmilesVect(rd, 1, randomSeed=rng.randrange(1, 1 << 30)))
        except Exception:
            continue
    return out


MARKS_EXTRA = """
From Gen Require Import StereoBody.
Definition ish (l : list Z) (x : Z) : bool := zmem x l.
Definition rmark (hasH : bool) (i : Z) (ord_i : list Z) (s passed : bool) : bool := Bool.eqb (g_read_mark hasH i ord_i s) passed.
Definition env_ok (a b : list Z) : bool := list_eqb Z.eqb a b.
Definition fr_ok (hs : list Z) (e : Z * Z * option Z * option Z) (adj : list Z) (n : Z) : bool := option_eqb Z.eqb (first_ref (ish hs) e adj) (Some n).
Definition wth (hs order adj : list Z) (s hasH first : bool) (r : pyres bool) : bool :=
  pyres_eqb Bool.eqb (write_th (ish hs) order adj s hasH first) r.
Definition rth (hs order adj : list Z) (mark hasH np : bool) (r : pyres bool) : bool :=
  pyres_eqb Bool.eqb (read_th (ish hs) order adj mark hasH np) r.
Definition wal (hs : list Z) (e : env4s) (a1 a2 : list Z) (s : bool) (r : pyres bool) : bool :=
  pyres_eqb Bool.eqb (write_al (ish hs) e a1 a2 s) r.
Definition ral (hs : list Z) (e : env4s) (a1 a2 : list Z) (mark hasH np : bool) (r : pyres bool) : bool :=
  pyres_eqb Bool.eqb (read_al (ish hs) e a1 a2 mark hasH np) r.
Definition rct (hs : list Z) (e : env4s) (f : bool) (n1 n2 : Z) (s1 s2 : bool) (r : pyres bool) : bool :=
  pyres_eqb Bool.eqb (read_ct (ish hs) e f n1 n2 s1 s2) r.
Definition wct (hs : list Z) (e : env4s) (kf : bool) (v on : Z) (base s mo mk : bool) : bool :=
  match write_ct (ish hs) e kf v on base s with Ok (a, c) => Bool.eqb a mo && Bool.eqb c mk | Err _ => false end.
"""


def corr_smiles_marks(ck):
    """every '@'/'@@' the real writer emits and every sign the real reader stores for a stereo atom, every (n, m, n1, n2, mark)
    the reader passes to add_cis_trans_stereo with the sign it stores, and every pair of direction marks in the writer's ct_map
    == coq/model/StereoSmiles.v on the same neighbour orders"""
    from chython import smiles
    cases, meta = [], []

    def hs_of(m):
        return lst([k for k, a in m._atoms.items() if a.atomic_number == 1], zraw)

    def add(case, info, key):
        cases.append(case)
        meta.append(info)
        ck.case(key)

    rngm = random.Random(f'{ck.seed}:marks-mapped')
    with Trace() as tr:
        for smi in marks_inputs(ck):
            try:
                m = smiles(smi)
            except Exception:
                continue
            # atom-mapped spellings: atom numbers (= map numbers) in another order than the positions in the string
            for sp in mapped_spellings(smi, rngm, 2):
                try:
                    smiles(sp)
                    ck.count('marks: atom-mapped spellings read')
                except Exception:
                    pass
            texts = []
            for k in range(4):
                try:
                    texts.append(format(m, 'r') if k else str(m))
                except Exception:
                    pass
            for sp in texts:
                try:
                    smiles(sp)
                except Exception:
                    pass
    # ---- writer: atoms
    for m, n, adj, first_key, out in tr.atoms:
        bit = 'true' if '@' in out and '@@' not in out else 'false'
        s = m._atoms[n].stereo
        if n in m._stereo_allenes_terminals:
            t1, t2 = m._stereo_allenes_terminals[n]
            add(f'wal {hs_of(m)} {envterm(m.stereogenic_allenes[n])} {lst(adj[t1], zraw)} {lst(adj[t2], zraw)} {b(s)} (Ok {bit})',
                ('write-allene', str(m), n, adj[t1], adj[t2], out), ('wal', n, tuple(adj[t1]), tuple(adj[t2]), s, out))
            ck.count('marks: writer allene')
        elif n in m.stereogenic_tetrahedrons:
            hasH = bool(m._atoms[n].implicit_hydrogens)
            add(f'wth {hs_of(m)} {lst(m.stereogenic_tetrahedrons[n], zraw)} {lst(adj[n], zraw)} {b(s)} {b(hasH)} {b(first_key == n)} (Ok {bit})',
                ('write-th', str(m), n, adj[n], hasH, first_key == n, out), ('wth', tuple(m.stereogenic_tetrahedrons[n]), tuple(adj[n]), s, hasH, first_key == n, out))
            ck.count('marks: writer tetrahedron' + (' first atom with H' if hasH and first_key == n else ''))
    # ---- writer: ct_map
    for m, keys, ctm in tr.ctmaps:
        pos = {k: i for i, k in enumerate(keys)}
        for (a, c), e in m.stereogenic_cis_trans.items():
            i, j = m._stereo_cis_trans_centers[a]
            S = m._bonds[i][j].stereo
            if S is None:
                continue
            xa = [x for x in m._bonds[a] if (a, x) in ctm and int(m._bonds[a][x]) == 1]
            xc = [y for y in m._bonds[c] if (c, y) in ctm and int(m._bonds[c][y]) == 1]
            for x in xa:
                for y in xc:
                    add(f'rct {hs_of(m)} {envterm(e)} true {zraw(x)} {zraw(y)} {b(ctm[(a, x)])} {b(ctm[(c, y)])} (Ok {b(S)})',
                        ('ct_map-pair', str(m), (a, c), (x, y), ctm[(a, x)], ctm[(c, y)], S), ('ctp', a, c, x, y, ctm[(a, x)], ctm[(c, y)], S))
                    ck.count('marks: writer ct_map pairs')
            if a in ctm and c in ctm and a in pos and c in pos:
                o, k = (a, c) if pos[a] < pos[c] else (c, a)
                on, v = ctm[o], ctm[k]
                if (o, on) in ctm and (k, v) in ctm:
                    add(f'wct {hs_of(m)} {envterm(e)} {b(k == a)} {zraw(v)} {zraw(on)} {b(ctm[(o, on)])} {b(S)} {b(ctm[(o, on)])} {b(ctm[(k, v)])}',
                        ('ct_map-rule', str(m), (o, k), (on, v)), ('wct', o, k, on, v, ctm[(o, on)], ctm[(k, v)], S))
                    ck.count('marks: writer ct_map rule')
    # ---- reader
    for m, snap, ctcalls, kw, acalls in tr.reads:
        if kw.get('ignore_stereo'):
            continue
        mp = snap['mapping']
        order = {mp[i]: [mp[x] for x in xs if x is not None] for i, xs in snap['order'].items()}
        for i, s in snap['stereo_atoms'].items():
            n = mp[i]
            # intermediate state: the (environment, mark) the real reader passes to add_atom_stereo == translated first-atom rule
            # (Gen.StereoBody.g_read_mark on POSITIONS) and the neighbour order / first written allene substituents of the model
            first = next((c for c in acalls if c[1] == n), None)
            if first is not None and None not in snap['order'][i]:
                _, _, env_passed, mark_passed = first
                hasH0 = bool(m._atoms[n].implicit_hydrogens)
                add(f'rmark {b(hasH0)} {zraw(i)} {lst(snap["order"][i], zraw)} {b(s)} {b(mark_passed)}',
                    ('read-mark-passed', str(m), n, i, snap['order'][i], s, mark_passed), ('rmark', hasH0, i, tuple(snap['order'][i]), s, mark_passed))
                ck.count('marks: reader mark passed to add_atom_stereo (intermediate)')
                if n in m.stereogenic_tetrahedrons:
                    add(f'env_ok {lst(env_passed, zraw)} {lst(order.get(n, []), zraw)}', ('read-env-passed', str(m), n, env_passed, order.get(n)),
                        ('renv', tuple(env_passed), tuple(order.get(n, []))))
                elif n in m.stereogenic_allenes and len(env_passed) == 2:
                    t1, t2 = m._stereo_allenes_terminals[n]
                    add(f'fr_ok {hs_of(m)} {envterm(m.stereogenic_allenes[n])} {lst(order[t1], zraw)} {zraw(env_passed[0])} && '
                        f'fr_ok {hs_of(m)} {envterm(m.stereogenic_allenes[n])} {lst(order[t2], zraw)} {zraw(env_passed[1])}',
                        ('read-allene-refs-passed', str(m), n, env_passed, order[t1], order[t2]), ('rfr', n, tuple(env_passed), tuple(order[t1]), tuple(order[t2])))
                    ck.count('marks: reader allene reference substituents passed (intermediate)')
            actual = m._atoms[n].stereo
            if actual is None:
                ck.count('marks: reader label not kept')
                continue
            hasH = bool(m._atoms[n].implicit_hydrogens)
            np_ = all(x > i for x in snap['order'][i])
            if np_ != all(mp[x] > n for x in snap['order'][i]):
                ck.count('marks: reader centre whose atom NUMBER order disagrees with its position order (mapped)')
            if n in m.stereogenic_tetrahedrons:
                add(f'rth {hs_of(m)} {lst(m.stereogenic_tetrahedrons[n], zraw)} {lst(order.get(n, []), zraw)} {b(s)} {b(hasH)} {b(np_)} (Ok {b(actual)})',
                    ('read-th', str(m), n, order.get(n), s, hasH, np_, actual), ('rth', tuple(m.stereogenic_tetrahedrons[n]), tuple(order.get(n, [])), s, hasH, np_, actual))
                ck.count('marks: reader tetrahedron' + (' inverted' if hasH and np_ else ''))
            elif n in m.stereogenic_allenes:
                t1, t2 = m._stereo_allenes_terminals[n]
                add(f'ral {hs_of(m)} {envterm(m.stereogenic_allenes[n])} {lst(order[t1], zraw)} {lst(order[t2], zraw)} {b(s)} {b(hasH)} {b(np_)} (Ok {b(actual)})',
                    ('read-allene', str(m), n, order[t1], order[t2], s, actual), ('ral', n, tuple(order[t1]), tuple(order[t2]), s, actual))
                ck.count('marks: reader allene')
        sb = {mp[i]: {mp[x]: v for x, v in xs.items()} for i, xs in snap['stereo_bonds'].items()}
        done = set()
        for n, c, n1, n2, mark, exc in ctcalls:
            if exc is not None or (n, c) in done:
                continue
            done.add((n, c))
            i, j = m._stereo_cis_trans_centers[n]
            actual = m._bonds[i][j].stereo
            if actual is None or n1 not in sb.get(n, {}) or n2 not in sb.get(c, {}):
                continue
            e = m.stereogenic_cis_trans.get((n, c)) or m.stereogenic_cis_trans.get((c, n))
            if (sb[n][n1] == sb[c][n2]) != mark:
                ck.unchecked('reader passes another mark than s1 == s2 to add_cis_trans_stereo', str((n, c, n1, n2, mark, sb[n], sb[c])))
            add(f'rct {hs_of(m)} {envterm(e)} {b((n, c) in m.stereogenic_cis_trans)} {zraw(n1)} {zraw(n2)} {b(sb[n][n1])} {b(sb[c][n2])} (Ok {b(actual)})',
                ('read-ct', str(m), (n, c), (n1, n2), sb[n][n1], sb[c][n2], actual), ('rct', n, c, n1, n2, sb[n][n1], sb[c][n2], actual))
            ck.count('marks: reader cis/trans')
    ok, failing, log = coqcases.run_cases('c12marks', 'Stereo StereoSmiles', cases, extra=MARKS_EXTRA, shard=600)
    ck.oblige('correspondence: SMILES stereo marks of the real writer / reader == Coq model (traced calls)', ok and not failing,
              'correspondence', log or str([meta[i] for i in failing[:5]]))
    ck.extra['marks_cases'] = len(cases)
    if cases:
        ck.sample({'model_call': cases[0], 'meta': repr(meta[0])})
    if not ok or failing:
        directed_marks_search(ck, [meta[i] for i in failing[:30]])
        ck.unchecked('correspondence StereoSmiles model vs SMILES stereo writer / reader', log[-1500:], [repr(meta[i]) for i in failing[:20]])
    return ok and not failing


def directed_marks_search(ck, metas):
    """on a broken marks correspondence: on the molecules of the disagreeing cases (1) the atom-mapped spelling oracle and (2) the
    round-trip oracle: random-order output must read back as the same stereoisomer (judged through RDKit's canonical SMILES of the
    two canonical strings, so that equal molecules that chython prints differently - ring pseudo-asymmetry, C01 - do not count)"""
    from chython import smiles
    from rdkit import Chem
    seen = set()
    for info in metas:
        smi = info[1]
        if not isinstance(smi, str) or smi in seen:
            continue
        seen.add(smi)
        try:
            m = smiles(smi)
        except Exception:
            continue
        for k in range(12):
            sp = format(m, 'r')
            try:
                back = smiles(sp)
            except Exception as e:
                ck.counterexample(f'marks-reread-raises:{smi}', f'random-order output cannot be read back: {type(e).__name__}', {'smiles': smi, 'respelled': sp},
                                  repr(e), 'a molecule', 'reader on writer output')
                break
            r0, r1 = Chem.MolFromSmiles(str(m)), Chem.MolFromSmiles(str(back))
            if back != m and r0 is not None and r1 is not None and Chem.MolToSmiles(r0) != Chem.MolToSmiles(r1):
                ck.counterexample(f'marks-roundtrip:{smi}', 'random-order SMILES reads back as a different stereoisomer (stereo marks)', {'smiles': smi, 'respelled': sp},
                                  str(back), str(m), 'chython reader on chython writer output, both canonicalised by RDKit',
                                  replay_py=f"from chython import smiles; m=smiles({smi!r}); print(m, smiles({sp!r}))")
                break
    search_mapped(ck, sorted(seen), families=False)

# ---------------------------------------------------------------------------------------------------------------
# fix_stereo (coq/model/StereoFix.v): collection through the registries model + the retry loop; chirality detection is an input
# of the model and is supplied as a table computed with the real code for every subset of the saved labels

def centre_term(c):
    return {'T': lambda: f'(CT {zraw(c[1])})', 'A': lambda: f'(CA {zraw(c[1])})', 'C': lambda: f'(CC {zraw(c[1])} {zraw(c[2])})'}[c[0]]()


def labels_term(labels):
    return lst([f'({centre_term(c)}, {b(s)})' for c, s in labels])


def labels_of(m):
    """the labels a molecule carries, keyed like the model: ('T', n) / ('A', n) / ('C', first, last); labels that fix_stereo must
    drop outright are keyed ('X', ...)"""
    out = {}
    for n, a in m._atoms.items():
        if a.stereo is not None:
            if n in m.stereogenic_tetrahedrons:
                out[('T', n)] = a.stereo
            elif n in m.stereogenic_allenes:
                out[('A', n)] = a.stereo
            else:
                out[('X', n)] = a.stereo
    for n, k, bd in m.bonds():
        if bd.stereo is not None:
            ta = m._stereo_cis_trans_terminals.get(n)
            out[('C', *ta) if ta else ('X', n, k)] = bd.stereo
    return out


def set_labels(m, labels):
    for _, a in m._atoms.items():
        a._stereo = None
    for *_, bd in m.bonds():
        bd._stereo = None
    for c, s in labels.items():
        if c[0] in ('T', 'A') or (c[0] == 'X' and len(c) == 2):
            m._atoms[c[1]]._stereo = s
        elif c[0] == 'C':
            i, j = m._stereo_cis_trans_centers[c[1]]
            m._bonds[i][j]._stereo = s
        else:
            m._bonds[c[1]][c[2]]._stereo = s
    m.flush_cache()


def chiral_given(base, labels):
    m = base.copy()
    set_labels(m, labels)
    return [('T', n) for n in m.chiral_tetrahedrons] + [('A', n) for n in m.chiral_allenes] + [('C', a, c) for a, c in m.chiral_cis_trans]


FIX_TEMPLATES = ['CC(O)C(F)C(O)C', 'CC(O)C(O)C(O)C', 'OC(C(O)=O)C(O)C(O)=O', 'CC=CC(O)C=CC', 'CC=CC(C=CC)=C(F)Cl', 'CC(F)=C=C(C)F', 'CC1CCC(C)CC1',
                 'OC1C(O)C(O)C1O', 'CC(C)C(C)(F)Cl', 'FC(Cl)C(Br)C(F)Cl', 'CC=CC(C=CC)=C=C(F)Cl', 'CC=C(C)C(O)C(C)=CC', 'CC1CC12CC2C', 'CC1CC(C)C1',
                 'CC=C=C=CC', 'CC(O)C=CC(O)C', 'CC(O)C(C(O)C)=C(F)Cl', 'OC1CC(O)CC(O)C1', 'CC(N)C(=O)O', 'FC=CC=CF', 'CC(F)C(F)(C(C)F)C(F)(Cl)Br',
                 'CC1OC(C)C1F', 'CC(F)C1CC(C(C)F)C1', 'C1CCCC1=C1CCC(C)C1', 'CC(O)C(O)(C(O)C)C(O)C', '[H]C(F)(Cl)C(O)C', 'CC(O)C([H])(F)C(O)C']


def corr_fix_stereo(ck):
    """fix_stereo of the real code == model: the saved labels are collected through the registries model, the retry loop of the
    model is driven by the chirality table of the real code (every subset of the saved labels); compared: the set of surviving
    labels with their signs.  States carry labels on chiral, pseudo-asymmetric, non-chiral and non-stereogenic centres."""
    import coqmol
    from chython import smiles
    rng = random.Random(f'{ck.seed}:fix')
    cases, meta = [], []
    nstates = 6 if ck.tier == 'quick' else 24
    for smi in FIX_TEMPLATES:
        base = smiles(smi)
        cents = [('T', n) for n in base.stereogenic_tetrahedrons] + [('A', n) for n in base.stereogenic_allenes] + \
                [('C', a, c) for a, c in base.stereogenic_cis_trans]
        junk = [('X', n) for n in base.tetrahedrons if n not in base.stereogenic_tetrahedrons][:2]
        if not cents:
            continue
        for k in range(nstates):
            chosen = cents if len(cents) <= 4 and k == 0 else rng.sample(cents, min(len(cents), rng.randint(1, 4)))
            labels = {c: rng.choice([True, False]) for c in chosen}
            if junk and k % 2:
                labels[rng.choice(junk)] = True
            state = base.copy()
            set_labels(state, labels)
            valid = [(c, s) for c, s in labels.items() if c[0] != 'X']
            tab = []
            for r in range(len(valid) + 1):
                for sub in itertools.combinations(valid, r):
                    tab.append((list(sub), chiral_given(base, dict(sub))))
            # is the chirality of the real code monotone in the labels present (hypothesis of C12_fix_stereo_spec)?
            for sub, ch in tab:
                for sup, ch2 in tab:
                    if len(sup) > len(sub) and set(sub) <= set(sup):
                        lost = [c for c in ch if c not in ch2 and c not in dict(sup)]
                        ck.count('fix_stereo: chirality table monotone' if not lost else 'fix_stereo: chirality table NOT monotone (spec theorem does not apply)')
            after = state.copy()
            after.fix_stereo()
            exp = labels_of(after)
            if any(c[0] == 'X' for c in exp):
                ck.counterexample(f'fix-stereo-keeps-junk:{smi}', 'fix_stereo keeps a label on an atom / bond that is in no stereo registry',
                                  {'smiles': smi, 'labels': repr(labels)}, repr(exp), 'label dropped', 'registries of the real code')
                continue
            g = coqmol.mol_term(state)
            tabt = lst([f'({labels_term(sub)}, {lst([centre_term(c) for c in ch])})' for sub, ch in tab])
            cases.append(f'fix_ok {g} {tabt} {labels_term(list(exp.items()))}')
            meta.append((smi, sorted(labels.items()), sorted(exp.items())))
            ck.case(('fix', smi, tuple(sorted(labels.items()))), nontrivial=len(exp) < len(labels) or len(valid) > 1)
            ck.count(f'fix_stereo: {len(labels) - len(exp)} of {len(labels)} labels dropped')
            # how many rounds the real loop needs (pseudo-asymmetry = more than one)
            first = [c for c, s in valid if c in set(chiral_given(base, {}))]
            if len(first) < len(exp):
                ck.count('fix_stereo: states needing more than one round (pseudo-asymmetric)')
    extra = '''
Definition fix_ok (g : mol) (tab : list (list label * list centre)) (expected : list label) : bool :=
  match fix_stereo_real g tab with Ok l => same_labels l expected | Err _ => false end.
'''
    ok, failing, log = coqcases.run_cases('c12fix', 'Graph Stereo StereoRegistry StereoFix', cases, extra=extra, shard=40)
    ck.oblige('correspondence: fix_stereo (collection through the registries + retry loop) == Coq model, chirality table from the real code',
              ok and not failing, 'correspondence', log or str([meta[i] for i in failing[:5]]))
    ck.extra['fix_stereo_cases'] = len(cases)
    if not ok or failing:
        directed_fix_search(ck, [meta[i] for i in failing[:20]])
        ck.unchecked('correspondence StereoFix model vs MoleculeStereo.fix_stereo', log[-1500:], [repr(meta[i]) for i in failing[:20]])
    return ok and not failing


def directed_fix_search(ck, metas):
    """on a broken fix_stereo correspondence: the specification on the real code -- after fix_stereo no dropped label is chiral
    (it would have been restored) and fix_stereo is idempotent"""
    from chython import smiles
    for smi, labels, exp in metas:
        base = smiles(smi)
        state = base.copy()
        set_labels(state, dict(labels))
        after = state.copy()
        after.fix_stereo()
        kept = labels_of(after)
        chiral_now = set(chiral_given(base, kept))
        lost = [c for c, s in labels if c not in kept and c in chiral_now]
        again = after.copy()
        again.fix_stereo()
        # a kept label must have been chiral when it was restored, i.e. given SOME subset of the other kept labels
        others = lambda c: [x for x in kept.items() if x[0] != c]
        bogus = [c for c in kept if c[0] != 'X' and len(kept) <= 6 and
                 not any(c in chiral_given(base, dict(sub)) for r in range(len(kept)) for sub in itertools.combinations(others(c), r))]
        if bogus:
            ck.counterexample(f'fix-stereo-keeps-nonchiral:{smi}', 'fix_stereo keeps the label of a centre that is not chiral given any subset of the other labels it kept',
                              {'smiles': smi, 'labels': repr(labels)}, repr(bogus), 'label dropped', 'chiral_* of the real code on a copy carrying only the other kept labels',
                              replay_py=f"from chython import smiles; m=smiles({smi!r}); # set labels {labels!r} on the registered centres, then m.fix_stereo()")
        if lost:
            ck.counterexample(f'fix-stereo-drops-chiral:{smi}', 'fix_stereo dropped the label of a centre that is chiral given the labels it kept',
                              {'smiles': smi, 'labels': repr(labels)}, repr(lost), 'label restored', 'chiral_* of the real code after fix_stereo')
        elif labels_of(again) != kept:
            ck.counterexample(f'fix-stereo-not-idempotent:{smi}', 'a second fix_stereo changes the labels', {'smiles': smi, 'labels': repr(labels)},
                              repr(labels_of(again)), repr(kept), 'idempotence')

# ---------------------------------------------------------------------------------------------------------------
# add_wedge (coq/model/StereoWedge.v) and the label-setting API after the SMILES was cached

def wedge_inputs(ck):
    """(family, molecule with integer 2D coordinates): allenes a-C(b)=C=C(c)-d and longer odd cumulenes with every end decoration
    (two heavy substituents, one, explicit H), tetrahedral centres with 3 / 4 neighbours and explicit H; written numbering and
    shuffled numbering / bond-table orders; random integer coordinates in general position"""
    from chython import smiles
    rng = random.Random(f'{ck.seed}:wedge')
    smis = ['NC(Br)=C=C(O)C', 'CC(F)=C=C(Cl)C', 'NC=C=C(O)C', 'NC(Br)=C=CO', 'FC=C=CCl', '[H]C(F)=C=C([H])Cl', 'NC(Br)=C=C(O)[H]',
            'NC(Br)=C=C=C=C(O)C', 'CC(F)=C=C1CCC(C)CC1', 'C(Br)(N)=C=C(C)O',
            'NC(Br)(O)C', 'NC(Br)O', '[H]C(N)(Br)O', 'NC([H])(Br)O', 'C[C@H](N)C(=O)O'.replace('[C@H]', 'C'), 'OC1CCCC(N)C1', 'NC(Br)(O)C(F)Cl']
    out = []
    for smi in smis:
        base = smiles(smi)
        for k in range(3 if ck.tier == 'quick' else 10):
            m = reshuffle(base, rng) if k else base.copy()
            pts = rng.sample([(x, y) for x in range(-9, 10) for y in range(-9, 10)], len(m._atoms))
            for (n, a), p in zip(m._atoms.items(), pts):
                a.xy = p
            m.flush_cache()
            out.append((smi, m))
    return out


def coords_term(m):
    return lst([f'({zraw(n)}, ({zraw(int(a.x))}, {zraw(int(a.y))}))' for n, a in m._atoms.items()])


WEDGE_EXTRA = """
Definition ish (l : list Z) (x : Z) : bool := zmem x l.
Definition ob_eqb (a b : option bool) : bool := option_eqb Bool.eqb a b.
Definition wal_ok (hs : list Z) (e : env4s) (t1 t2 n m : Z) (c : list (Z * (Z * Z))) (mark : Z) (r : pyres (option bool)) : bool :=
  pyres_eqb ob_eqb (wedge_al (ish hs) e t1 t2 n m c mark) r.
Definition wth_ok (hs th nb : list Z) (n m : Z) (c : list (Z * (Z * Z))) (mark : Z) (r : pyres (option bool)) : bool :=
  pyres_eqb ob_eqb (wedge_th (ish hs) th nb n m c mark) r.
Definition api_ct_ok (hs : list Z) (e : env4s) (fwd : bool) (n1 n2 : Z) (mark : bool) (r : pyres bool) (cache_dropped : bool) : bool :=
  pyres_eqb Bool.eqb (read_ct (ish hs) e fwd n1 n2 mark true) r && Bool.eqb cache_dropped (api_drops_smiles_cache true).
"""


def corr_wedge(ck):
    """add_wedge of the real code on every bond (n -> m, up and down) of every allene terminal / tetrahedral centre == model;
    add_cis_trans_stereo called through the public API from either end after str() == model (stored sign, cache dropped)"""
    from chython import smiles
    from chython.exceptions import NotChiral, IsChiral, AtomNotFound
    cases, meta = [], []
    for smi, m in wedge_inputs(ck):
        hs = lst([k for k, a in m._atoms.items() if a.atomic_number == 1], zraw)
        ct = coords_term(m)
        starts = {t: c for c, ts in m._stereo_allenes_terminals.items() for t in ts}
        for n in list(starts) + list(m.stereogenic_tetrahedrons):
            for x in m._bonds[n]:
                for mark in (1, -1):
                    w = m.copy()
                    try:
                        w.add_wedge(n, x, mark)
                    except (NotChiral, IsChiral, AtomNotFound):
                        ck.count('wedge: guard raised (not compared)')
                        continue
                    except Exception as e:
                        got = 'Err ' + EXN.get(type(e).__name__, 'OtherError')
                    else:
                        c = starts.get(n, n)
                        got = f'Ok {opt(w._atoms[c].stereo, b)}'
                    if n in starts:
                        c = starts[n]
                        t1, t2 = m._stereo_allenes_terminals[c]
                        cases.append(f'wal_ok {hs} {envterm(m.stereogenic_allenes[c])} {zraw(t1)} {zraw(t2)} {zraw(n)} {zraw(x)} {ct} {zraw(mark)} ({got})')
                        ck.count('wedge: allene ' + ('position %s' % (m.stereogenic_allenes[c].index(x) if x in m.stereogenic_allenes[c] else 'H/chain')))
                    else:
                        cases.append(f'wth_ok {hs} {lst(m.stereogenic_tetrahedrons[n], zraw)} {lst(list(m._bonds[n]), zraw)} {zraw(n)} {zraw(x)} {ct} {zraw(mark)} ({got})')
                        ck.count('wedge: tetrahedron')
                    meta.append((smi, list(m._atoms), n, x, mark, got))
                    ck.case(('wedge', smi, tuple(m._atoms), n, x, mark), nontrivial=got.startswith('Ok (Some'))
    # ---- the public API after the SMILES was cached: both orders of the terminal atoms
    for smi in ('FC=CF', 'FC=CC=CCl', 'CC=C=C=CC', 'FC(Cl)=C(Br)I', '[H]C(F)=C([H])Cl', 'CC=C1CCC(C)CC1'):
        base = smiles(smi)
        hs = lst([k for k, a in base._atoms.items() if a.atomic_number == 1], zraw)
        for (a, c), e in base.stereogenic_cis_trans.items():
            subs_a = [x for x in (e[0], e[2]) if x is not None]
            subs_c = [x for x in (e[1], e[3]) if x is not None]
            for x in subs_a:
                for y in subs_c:
                    for mark in (True, False):
                        for fwd in (True, False):
                            m = base.copy()
                            str(m), hash(m)
                            try:
                                if fwd:
                                    m.add_cis_trans_stereo(a, c, x, y, mark)
                                else:
                                    m.add_cis_trans_stereo(c, a, y, x, mark)
                            except (NotChiral, IsChiral):
                                continue
                            i, j = m._stereo_cis_trans_centers[a]
                            dropped = '__cached_method___str__' not in m.__dict__
                            n1, n2 = (x, y) if fwd else (y, x)
                            cases.append(f'api_ct_ok {hs} {envterm(e)} {b(fwd)} {zraw(n1)} {zraw(n2)} {b(mark)} (Ok {b(m._bonds[i][j].stereo)}) {b(dropped)}')
                            meta.append((smi, 'add_cis_trans_stereo', (a, c), (x, y), mark, fwd, dropped))
                            ck.case(('api-ct', smi, a, c, x, y, mark, fwd))
                            ck.count('api: add_cis_trans_stereo ' + ('key order' if fwd else 'far end first'))
    ok, failing, log = coqcases.run_cases('c12wedge', 'Stereo StereoSmiles StereoWedge', cases, extra=WEDGE_EXTRA, shard=300)
    ck.oblige('correspondence: add_wedge (allene / tetrahedron) and add_cis_trans_stereo from either end == Coq model', ok and not failing,
              'correspondence', log or str([meta[i] for i in failing[:5]]))
    ck.extra['wedge_cases'] = len(cases)
    if not ok or failing:
        search_wedge(ck, thorough=True)
        search_api_cache(ck)
        ck.unchecked('correspondence StereoWedge model vs add_wedge / add_cis_trans_stereo', log[-1500:], [repr(meta[i]) for i in failing[:20]])
    return ok and not failing


def _det3(u, v, w):
    return (u[0] * (v[1] * w[2] - v[2] * w[1]) - u[1] * (v[0] * w[2] - v[2] * w[0]) + u[2] * (v[0] * w[1] - v[1] * w[0]))


def _calibrate():
    """sign convention taken from RDKit, not from chython: for neighbours a, b, c, d of a centre at 3D positions p, the SMILES
    a[C@](b)(c)d  <=>  det(b - a, c - a, d - a) < 0 ?"""
    from rdkit import Chem
    from rdkit.Geometry import Point3D
    import math
    rm = Chem.RWMol(Chem.MolFromSmiles('NC(Br)(O)C'))
    pos = {0: (0, 0, 1), 1: (0, 0, 0), 2: (1, 0, -.3), 3: (math.cos(2.094), math.sin(2.094), -.3), 4: (math.cos(4.188), math.sin(4.188), -.3)}
    conf = Chem.Conformer(rm.GetNumAtoms())
    for i, p in pos.items():
        conf.SetAtomPosition(i, Point3D(*p))
    conf.Set3D(True)
    rm.AddConformer(conf)
    Chem.AssignStereochemistryFrom3D(rm)
    sub = lambda p, q: tuple(x - y for x, y in zip(p, q))
    det = _det3(sub(pos[2], pos[0]), sub(pos[3], pos[0]), sub(pos[4], pos[0]))
    is_at = Chem.MolToSmiles(rm) == Chem.MolToSmiles(Chem.MolFromSmiles('N[C@](Br)(O)C'))
    return (det < 0) == is_at      # True: negative volume <=> '@'


def search_wedge(ck, thorough=False):
    """independent oracles for add_wedge: (1) a 3D model of the drawing (the wedged substituent lifted, its geminal partner lowered)
    gives the expected SMILES through the volume sign, convention calibrated with RDKit; (2) wedge to one geminal substituent ==
    hash to the other; (3) the wedges the library itself writes (_wedge_map) restore the label through add_wedge"""
    from chython import smiles
    neg_is_at = _calibrate()
    sub = lambda p, q: tuple(x - y for x, y in zip(p, q))
    # ---- (1) + (2): allenes a-C(b)=C=C(c)-d, atoms numbered 1..7 as written
    XY = {1: (-3, 2), 2: (-2, 0), 3: (-3, -2), 4: (0, 0), 5: (2, 0), 6: (3, 2), 7: (3, -2)}
    GEM = {1: 3, 3: 1, 6: 7, 7: 6}
    TERM = {1: 2, 3: 2, 6: 5, 7: 5}
    for a, b_, c, d in (('N', 'Br', 'O', 'C'), ('C', 'F', 'Cl', 'C'), ('N', '[H]', 'O', 'C'), ('C', 'F', '[H]', 'Cl'), ('O', 'C', 'C', 'N')):
        tmpl = f'{a}C({b_})=C=C({c}){d}'
        labels = {}
        for x in (1, 3, 6, 7):
            for mark in (1, -1):
                m = smiles(tmpl)
                for n, at in m.atoms():
                    at.xy = XY[n]
                str(m)
                try:
                    m.add_wedge(TERM[x], x, mark)
                except Exception as e:
                    ck.counterexample(f'wedge-raises:{tmpl}:{TERM[x]}>{x}', f'add_wedge raises {type(e).__name__} on a stereogenic allene', {'smiles': tmpl, 'wedge': (TERM[x], x, mark)},
                                      repr(e), 'a label', 'drawing')
                    continue
                q = {n: (p[0], p[1], 0) for n, p in XY.items()}
                q[x] = (XY[x][0], 0, mark)
                q[GEM[x]] = (XY[x][0], 0, -mark)
                det = _det3(sub(q[3], q[1]), sub(q[6], q[1]), sub(q[7], q[1]))
                at_ = (det < 0) == neg_is_at
                exp = f'{a}C({b_})=[C{"@" if at_ else "@@"}]=C({c}){d}'
                ck.case(('wedge3d', tmpl, x, mark))
                ck.count('wedge search: allene 3D model')
                labels[(x, mark)] = m._atoms[4].stereo
                if m != smiles(exp):
                    ck.counterexample(f'wedge-allene:{tmpl}:{TERM[x]}>{x}:{mark}', 'the label add_wedge derives from a drawn allene is not the configuration of the drawing '
                                      '(3D model of the drawing, sign convention from RDKit)', {'smiles': tmpl, 'xy': XY, 'wedge': (TERM[x], x, mark)}, str(m), exp,
                                      '3D volume sign + RDKit convention',
                                      replay_py=f"from chython import smiles; m=smiles({tmpl!r}); [setattr(a,'xy',{XY!r}[n]) for n,a in m.atoms()]; m.add_wedge({TERM[x]},{x},{mark}); print(m)")
        for x in (1, 6):
            for mark in (1, -1):
                if (x, mark) in labels and (GEM[x], -mark) in labels and labels[(x, mark)] != labels[(GEM[x], -mark)]:
                    ck.counterexample(f'wedge-geminal:{tmpl}:{x}', 'wedge to one substituent and hash to its geminal partner (one spatial arrangement) give different labels',
                                      {'smiles': tmpl, 'atoms': (x, GEM[x])}, (labels[(x, mark)], labels[(GEM[x], -mark)]), 'equal', 'geometry')
    # ---- (1) tetrahedra a-C(b)(c)-d
    XT = {1: (-2, 1), 2: (0, 0), 3: (2, 2), 4: (2, -1), 5: (-1, -2)}
    for a, b_, c, d in (('N', 'Br', 'O', 'C'), ('F', 'Cl', 'Br', 'I'), ('N', '[H]', 'O', 'C')):
        tmpl = f'{a}C({b_})({c}){d}'
        for x in (1, 3, 4, 5):
            for mark in (1, -1):
                m = smiles(tmpl)
                for n, at in m.atoms():
                    at.xy = XT[n]
                str(m)
                try:
                    m.add_wedge(2, x, mark)
                except Exception:
                    continue
                q = {n: (p[0], p[1], 0) for n, p in XT.items()}
                q[x] = (XT[x][0], XT[x][1], mark)
                det = _det3(sub(q[3], q[1]), sub(q[4], q[1]), sub(q[5], q[1]))
                exp = f'{a}[C{"@" if (det < 0) == neg_is_at else "@@"}]({b_})({c}){d}'
                ck.case(('wedge3d', tmpl, x, mark))
                ck.count('wedge search: tetrahedron 3D model')
                if m != smiles(exp):
                    ck.counterexample(f'wedge-th:{tmpl}:2>{x}:{mark}', 'the label add_wedge derives from a drawn tetrahedron is not the configuration of the drawing',
                                      {'smiles': tmpl, 'xy': XT, 'wedge': (2, x, mark)}, str(m), exp, '3D volume sign + RDKit convention')
    # ---- (3) round trip through the library's own wedge writer
    for smi, m0 in wedge_inputs(ck):
        for sign in (True, False):
            m = m0.copy()
            cents = list(m.stereogenic_allenes) + list(m.stereogenic_tetrahedrons)
            for c in cents:
                m._atoms[c]._stereo = sign
            m.flush_cache()
            m.fix_stereo()
            kept = {c: m._atoms[c].stereo for c in cents if m._atoms[c].stereo is not None}
            if not kept:
                continue
            try:
                wm = list(m._wedge_map)
            except Exception:
                continue
            w = m.copy()
            w.clean_stereo()
            for n, x, mark in wm:
                if mark:
                    try:
                        w.add_wedge(n, x, mark)
                    except Exception:
                        pass
            back = {c: w._atoms[c].stereo for c in kept}
            ck.case(('wedge-roundtrip', smi, tuple(m._atoms), sign))
            ck.count('wedge search: _wedge_map round trips')
            # tetrahedra with an explicit hydrogen are left out: the writer takes the centre, the reader the hydrogen as the fourth
            # point, which agree in drawings (hydrogen on the far side of its neighbours) but not for random coordinates
            bad = [c for c in kept if back[c] is not None and back[c] != kept[c] and
                   not any(m._atoms[x].atomic_number == 1 for x in m._bonds[c])]
            if bad:
                ck.counterexample(f'wedge-roundtrip:{smi}', 'the wedge bonds written for a labelled molecule (_wedge_map) are read back by add_wedge as another configuration',
                                  {'smiles': smi, 'atoms': list(m._atoms), 'xy': {n: (a.x, a.y) for n, a in m._atoms.items()}, 'wedges': wm}, back, kept,
                                  'wedge writer / reader round trip')


def search_api_cache(ck):
    """after ANY label-setting call of the public API the molecule must print, compare and hash like a molecule rebuilt from
    scratch with the same labels -- also when str()/hash() were evaluated before the call (cached SMILES) and from whichever end
    the double bond is named; the E and Z isomers never compare equal (RDKit reads the two strings as different molecules)"""
    from chython import smiles
    from rdkit import Chem
    def fresh(m):
        c = m.copy()
        c.flush_cache()
        return str(c)
    def probe(tag, smi, m, want_label=True):
        ck.case(('api-cache', tag, smi))
        ck.count('api search: ' + tag.split(':')[0])
        if str(m) != fresh(m) or hash(m) != hash(smiles(fresh(m))):
            ck.counterexample(f'stale-smiles:{tag}:{smi}', 'after a label-setting call str()/hash()/== still use the SMILES cached before the call',
                              {'smiles': smi, 'call': tag}, str(m), fresh(m), 'molecule rebuilt from scratch (copy without cache)',
                              replay_py=f"from chython import smiles; m=smiles({smi!r}); str(m); # then {tag}; print(str(m))")
            return False
        return True
    for smi in ('FC=CF', 'FC=CC=CCl', 'CC=C=C=CC', 'FC(Cl)=C(Br)I', 'CC=C1CCC(C)CC1'):
        base = smiles(smi)
        for (a, c), e in base.stereogenic_cis_trans.items():
            outs = {}
            for fwd in (True, False):
                for mark in (True, False):
                    m = base.copy()
                    str(m), hash(m)
                    try:
                        m.add_cis_trans_stereo(*((a, c, e[0], e[1]) if fwd else (c, a, e[1], e[0])), mark)
                    except Exception:
                        continue
                    if probe(f'add_cis_trans_stereo{"" if fwd else "(far end first)"}:{a},{c}', smi, m):
                        outs[(fwd, mark)] = str(m)
            for fwd in (True, False):
                if (fwd, True) in outs and (fwd, False) in outs:
                    r1, r2 = Chem.MolFromSmiles(outs[(fwd, True)]), Chem.MolFromSmiles(outs[(fwd, False)])
                    sees = r1 is not None and r2 is not None and Chem.MolToSmiles(r1) != Chem.MolToSmiles(r1, isomericSmiles=False)   # RDKit perceives this bond
                    if outs[(fwd, True)] == outs[(fwd, False)] or (sees and Chem.MolToSmiles(r1) == Chem.MolToSmiles(r2)):
                        ck.counterexample(f'ez-equal:{smi}:{a},{c}:{fwd}', 'the E and the Z isomer built through the API print the same SMILES', {'smiles': smi, 'bond': (a, c)},
                                          outs[(fwd, True)], 'two different strings', 'RDKit canonical isomeric SMILES')
    for smi, n, envs in (('NC(Br)(O)C', 2, [(1, 3, 4, 5), (3, 1, 4, 5)]), ('NC(Br)=C=C(O)C', 4, [(1, 6), (3, 6), (1, 7)])):
        for env in envs:
            for mark in (True, False):
                m = smiles(smi)
                str(m), hash(m)
                m.add_atom_stereo(n, env, mark)
                probe('add_atom_stereo', smi, m)
                m.clean_stereo()
                probe('clean_stereo', smi, m)
    XY = {1: (-3, 2), 2: (-2, 0), 3: (-3, -2), 4: (0, 0), 5: (2, 0), 6: (3, 2), 7: (3, -2)}
    for smi, pairs in (('NC(Br)=C=C(O)C', [(2, 1), (2, 3), (5, 6), (5, 7)]), ('NC(Br)(O)C', [(2, 1), (2, 3), (2, 4), (2, 5)])):
        for n, x in pairs:
            m = smiles(smi)
            for k, at in m.atoms():
                at.xy = XY[k]
            str(m), hash(m)
            m.add_wedge(n, x, 1)
            probe('add_wedge', smi, m)
    for smi in ('FC=CF', 'FC=CC=CCl'):
        m = smiles(smi)
        for k, at in m.atoms():
            at.xy = (2 * k, k % 2)
        str(m), hash(m)
        m.calculate_cis_trans_from_2d()
        probe('calculate_cis_trans_from_2d', smi, m)

# ---------------------------------------------------------------------------------------------------------------
# third wave: direction marks of the parser at ring closures, reference substituent of __differentiation
# (coq/model/StereoParse.v)

CLOSURE_TEMPLATES = (('F{f}C=C{ob}1CCOC{cb}1', 2, 6), ('C{ob}1(=C{f}F)CCOC{cb}1', 0, 6), ('C{ob}1OCCC{cb}1=C{f}F', 0, 4),
                     ('F{f}C=C{ob}1CCN(C)C{cb}1', 2, 7))
BOND_TOK = {'': 'None', '-': '(Some (1, 1))', '=': '(Some (1, 2))', '/': '(Some (9, 1))', '\\': '(Some (9, 0))'}

PSEUDO_FAMILIES = [('C{0}C=C(C)/[C{2}H](O)/C(C)=C{1}C', [['/', '\\'], ['/', '\\'], ['@', '@@']], True),
                   ('C{0}C=C(F)/[C{2}H](O)/C(F)=C{1}C', [['/', '\\'], ['/', '\\'], ['@', '@@']], True),
                   ('C{0}C(Cl)=C(C)/[C{2}H](O)/C(C)=C(Cl){1}C', [['/', '\\'], ['/', '\\'], ['@', '@@']], True),
                   ('C{0}C=C(C)/C(C(=C{1}C)/C)=C{2}F', [['/', '\\'], ['/', '\\'], ['/', '\\']], False),
                   ('C{0}C=C(C)/C(=C(F){2}Cl)/C(C)=C{1}C', [['/', '\\'], ['/', '\\'], ['/', '\\']], False),
                   ('C{0}C(C)=C=C(C)[C{2}H](O)C(C)=C=C(C){1}C'.replace('{0}', '').replace('{1}', ''), [[''], [''], ['@', '@@']], False)]


class TraceDiff:
    """records, for every call of MoleculeStereo.__differentiation, the Morgan classes it is entered with and the
    (n, m, reference, reference) arguments of the sign translations it makes before it recomputes the classes"""

    def __enter__(self):
        import sys
        from chython.containers import MoleculeContainer
        import chython.algorithms.stereo  # noqa
        st = sys.modules['chython.algorithms.stereo']
        self.cls, self.st = MoleculeContainer, st
        self.diff, self.tct, self.tal, self.morgan = (MoleculeContainer._MoleculeStereo__differentiation, MoleculeContainer._translate_cis_trans_sign,
                                                      MoleculeContainer._translate_allene_sign, st._morgan)
        self.records = []
        self.active = None
        tr = self

        def differentiation(self, morgan, *a):
            prev = tr.active
            tr.active = {'mol': self, 'morgan': dict(morgan), 'ct': [], 'al': []}
            try:
                return tr.diff(self, morgan, *a)
            finally:
                if tr.active is not None:
                    tr.records.append(tr.active)
                tr.active = prev

        def translate_ct(self, n, m, nn, nm, s=None):
            if tr.active is not None and tr.active['mol'] is self and s is None:
                tr.active['ct'].append((n, m, nn, nm))
            return tr.tct(self, n, m, nn, nm, s)

        def translate_al(self, c, nn, nm, s=None):
            if tr.active is not None and tr.active['mol'] is self and s is None:
                tr.active['al'].append((c, nn, nm))
            return tr.tal(self, c, nn, nm, s)

        def morgan(*a, **k):
            if tr.active is not None:       # classes change: later calls are not compared
                tr.records.append(tr.active)
                tr.active = None
            return tr.morgan(*a, **k)

        MoleculeContainer._MoleculeStereo__differentiation = differentiation
        MoleculeContainer._translate_cis_trans_sign = translate_ct
        MoleculeContainer._translate_allene_sign = translate_al
        st._morgan = morgan
        return self

    def __exit__(self, *a):
        self.cls._MoleculeStereo__differentiation = self.diff
        self.cls._translate_cis_trans_sign = self.tct
        self.cls._translate_allene_sign = self.tal
        self.st._morgan = self.morgan


def pseudo_inputs(ck):
    """(spelling, molecule): every E/Z x r/s isomer of acyclic molecules whose dependent centre / bond / allene sits between two
    constitutionally identical tri- and tetrasubstituted double-bond branches, each in several atom numberings"""
    from chython import smiles
    rng = random.Random(f'{ck.seed}:pseudo')
    out = []
    for tmpl, opts, _ in PSEUDO_FAMILIES:
        for combo in itertools.product(*opts):
            s = tmpl.format(*combo)
            try:
                m = smiles(s)
            except Exception:
                continue
            out.append((s, m))
            for k in range(2 if ck.tier == 'quick' else 8):
                out.append((s, corpus.renumber(m, rng)))
    return out


PARSE_EXTRA = """
Definition ob_eqb (a b : option bool) : bool := option_eqb Bool.eqb a b.
Definition cm_ok (ob cb : option btok) (r : pyres (option bool * option bool)) : bool :=
  pyres_eqb (fun x y => ob_eqb (fst x) (fst y) && ob_eqb (snd x) (snd y)) (closure_marks ob cb) r.
Definition chain_ok (t : option btok) (x y : option bool) : bool := ob_eqb (fst (chain_marks t)) x && ob_eqb (snd (chain_marks t)) y.
Definition wtab (tab : list (Z * Z)) (x : Z) : Z := match zget tab x with Some v => v | None => 0 end.
Definition ref_ok (tab : list (Z * Z)) (n1 : Z) (n2 : option Z) (a : Z) : bool := ct_ref_opt (wtab tab) n1 n2 =? a.
"""


def corr_parse_marks(ck):
    """(1) the marks the real parser records for a ring-closure bond in every spelling (bare / '-' / '=' / '/' / '\\' at the opening
    and at the closing digit, double-bond atom opening or closing the ring) == closure_marks; (2) the reference substituents the
    real __differentiation passes to the sign translation == ct_ref (minimum Morgan class, first listed wins ties), traced"""
    from chython.files.daylight.parser import parser
    from chython.files.daylight.tokenize import smiles_tokenize
    cases, meta = [], []
    for tmpl, a, l in CLOSURE_TEMPLATES:
        for ob, cb, f in itertools.product(BOND_TOK, BOND_TOK, '/\\'):
            s = tmpl.format(ob=ob, cb=cb, f=f)
            try:
                sb = parser(smiles_tokenize(s), False)['stereo_bonds']
                got = f'Ok ({opt(sb.get(a, {}).get(l), b)}, {opt(sb.get(l, {}).get(a), b)})'
                f0, f1 = (0, 1) if tmpl.startswith('F') else ((1, 2) if '(=C' in tmpl else (l + 1, l + 2))
                cases.append(f'chain_ok {BOND_TOK[f]} {opt(sb.get(f0, {}).get(f1), b)} {opt(sb.get(f1, {}).get(f0), b)}')
                meta.append((s, 'chain mark'))
            except Exception as e:
                got = 'Err ' + EXN.get(type(e).__name__, type(e).__name__ if type(e).__name__ in ('IncorrectSmiles',) else 'OtherError')
            cases.append(f'cm_ok {BOND_TOK[ob]} {BOND_TOK[cb]} ({got})')
            meta.append((s, 'closure', ob, cb, got))
            ck.case(('closure-marks', s), nontrivial='Some' in got)
            ck.count('parser: closure ' + ('raises' if got.startswith('Err') else 'marks recorded' if 'Some' in got else 'no mark'))
    with TraceDiff() as tr:
        for s, m in pseudo_inputs(ck):
            m.flush_cache()
            try:
                str(m)
                m.chiral_tetrahedrons
            except Exception:
                pass
    for rec in tr.records:
        m, mg = rec['mol'], rec['morgan']
        tab = lst([f'({zraw(k)}, {zraw(v)})' for k, v in mg.items()])
        for n, c, a, bb in rec['ct']:
            e = m.stereogenic_cis_trans.get((n, c))
            if e is None:
                continue
            cases.append(f'ref_ok {tab} {zraw(e[0])} {opt(e[2], zraw)} {zraw(a)} && ref_ok {tab} {zraw(e[1])} {opt(e[3], zraw)} {zraw(bb)}')
            meta.append((str(m), 'cis/trans reference', (n, c), e, (a, bb)))
            ck.case(('diff-ref', tuple(m._atoms), n, c, a, bb), nontrivial=e[2] is not None or e[3] is not None)
            ck.count('differentiation: cis/trans references' + (' (two substituents at an end)' if e[2] is not None or e[3] is not None else ''))
        for c, a, bb in rec['al']:
            e = m.stereogenic_allenes.get(c)
            if e is None:
                continue
            cases.append(f'ref_ok {tab} {zraw(e[0])} {opt(e[2], zraw)} {zraw(a)} && ref_ok {tab} {zraw(e[1])} {opt(e[3], zraw)} {zraw(bb)}')
            meta.append((str(m), 'allene reference', c, e, (a, bb)))
            ck.case(('diff-ref-al', tuple(m._atoms), c, a, bb))
            ck.count('differentiation: allene references')
    ok, failing, log = coqcases.run_cases('c12parse', 'StereoParse', cases, extra=PARSE_EXTRA, shard=300)
    ck.oblige('correspondence: parser direction marks at ring closures and __differentiation reference substituents == Coq model', ok and not failing,
              'correspondence', log or str([meta[i] for i in failing[:5]]))
    ck.extra['parse_cases'] = len(cases)
    if not ok or failing:
        search_closure_marks(ck)
        search_pseudo(ck)
        ck.unchecked('correspondence StereoParse model vs parser / __differentiation', log[-1500:], [repr(meta[i]) for i in failing[:20]])
    return ok and not failing


def search_closure_marks(ck):
    """every spelling of the ring-closure bond of an exocyclic double bond denotes, for RDKit, the isomer chython reads (spellings
    with the SAME mark at both digits are contradictory and left out); spellings that move the one mark between the digits or add
    an explicit '-' must give one molecule"""
    from chython import smiles
    from rdkit import Chem
    for tmpl, a, l in CLOSURE_TEMPLATES:
        groups = {}
        for ob, cb, f in itertools.product(('', '-', '/', '\\'), ('', '-', '/', '\\'), '/\\'):
            if ob in '/\\' and ob == cb and ob:
                continue
            s = tmpl.format(ob=ob, cb=cb, f=f)
            r0 = Chem.MolFromSmiles(s)
            try:
                m = smiles(s)
            except Exception:
                continue
            if r0 is None:
                continue
            ck.case(('closure-rdkit', s))
            ck.count('closure search: spellings')
            r1 = Chem.MolFromSmiles(str(m))
            c0, c1 = Chem.MolToSmiles(r0), Chem.MolToSmiles(r1) if r1 is not None else None
            if c0 != c1:
                ck.counterexample(f'closure-mark:{s}', 'a direction mark at a ring-closure digit is read as the other E/Z isomer (RDKit reads the same string)',
                                  {'smiles': s}, f'{m} (RDKit: {c1})', c0, 'RDKit canonical isomeric SMILES',
                                  replay_py=f"from chython import smiles; print(smiles({s!r}))")
            groups.setdefault(c0, set()).add(str(m))
        for c0, outs in groups.items():
            if len(outs) > 1:
                ck.counterexample(f'closure-spellings:{tmpl}:{c0}', 'spellings of one ring-closure bond (mark at the opening or closing digit, explicit -) give different molecules',
                                  {'template': tmpl, 'isomer': c0}, sorted(outs), 'one canonical string', 'RDKit groups the spellings')


def search_pseudo(ck):
    """dependent stereo between identical double-bond branches: the canonical string and the kept labels do not depend on the atom
    numbering (pure renumbering keeps the meaning of stored signs), the library's own random-order spellings read back as an equal
    molecule, and inverting the dependent centre gives an equal molecule exactly when the two branches have the same E/Z"""
    from chython import smiles
    rng = random.Random(f'{ck.seed}:pseudo-search')
    for tmpl, opts, centre in PSEUDO_FAMILIES:
        strs = {}
        for combo in itertools.product(*opts):
            s = tmpl.format(*combo)
            try:
                m = smiles(s)
            except Exception:
                continue
            ref = str(m)
            strs[combo] = ref
            ck.case(('pseudo', s))
            ck.count('pseudo search: isomers')
            for k in range(6):
                r = corpus.renumber(m, rng)
                r.fix_stereo()
                if str(r) != ref:
                    ck.counterexample(f'pseudo-numbering:{s}', 'the canonical SMILES / kept labels of a molecule with a dependent stereo element depend on the atom numbering',
                                      {'smiles': s, 'numbering': list(r._atoms)}, str(r), ref, 'renumbering (Graph.remap) of the same labelled molecule',
                                      replay_py=f"from chython import smiles; m=smiles({s!r}); print(m)")
                    break
            else:
                for k in range(6):
                    sp = format(m, 'r')
                    try:
                        back = smiles(sp)
                    except Exception:
                        continue
                    if back != m:
                        ck.counterexample(f'pseudo-respell:{s}', 'two spellings of one isomer with a dependent stereo element compare unequal', {'smiles': s, 'respelled': sp},
                                          str(back), ref, 'chython reader on chython random-order output',
                                          replay_py=f"from chython import smiles; print(smiles({s!r}), smiles({sp!r}))")
                        break
        if centre:
            for (m0, m1, ch), ref in strs.items():
                if ch != '@' or (m0, m1, '@@') not in strs:
                    continue
                same = ref == strs[(m0, m1, '@@')]
                if same != (m0 == m1):
                    ck.counterexample(f'pseudo-centre:{tmpl}:{m0}{m1}', 'a centre between two identical branches: inverting it must give an equal molecule exactly when the branches '
                                      'have the same E/Z configuration', {'template': tmpl, 'marks': (m0, m1)}, f'equal={same}: {ref} / {strs[(m0, m1, "@@")]}',
                                      f'equal={m0 == m1}', 'symmetry of the template (OpenSMILES reading of the marks)')

# ---------------------------------------------------------------------------------------------------------------
# __chiral_centers (coq/model/StereoChiral.v): weights (_chiral_morgan) and atoms_rings are inputs taken from the real code

CHIRAL_ZOO = ['C[C@H](N)C(=O)O', 'CC(O)C(F)C(O)C', 'C[C@H](O)C(F)[C@@H](O)C', 'C[C@H](O)C(F)[C@H](O)C', 'OC1C(O)C(O)C1O', 'O[C@H]1C(O)[C@@H](O)C1O',
              'CC1CCC(C)CC1', 'C[C@H]1CC[C@@H](C)CC1', 'CC1CCC(O)CC1', 'CC1CC(C)C1', 'CC1CC12CC2C', 'C1CC12CC2', 'C1CCC2(C1)CCOC2', 'C1COC2(C1)CCOC2',
              'C1CC2CCC1C2', 'CC12CCC(C1)C2(C)C', 'C1CCC2CCCCC2C1', 'C[C@H]1CC[C@@H]2CCCC[C@H]2C1', 'CC=C1CCC(C)CC1', 'C/C=C1/CC[C@H](C)CC1',
              'CC1CCC(CC1)=C1CCC(C)CC1', 'CC1CCC(CC1)=C=C1CCC(C)CC1', 'C1CCCCCCC=C=C1', 'C1CCCC=C=CCC1', 'C1CCCCCC/C=C/1', 'C1CCCCCC=CCCCC1', 'C1CC=CCC1',
              'C1CCC=C=CCCC=C=C1', 'CC1CCC(=C=CC)CC1', 'CC(F)=C=C1CCC(C)CC1', 'C1CCC(=C2CCC2)C1', 'CC1CC(=CF)C1', 'FC=C1CC(=CF)C1', 'FC=C1CC(=C=CF)C1',
              'CC=CC(O)C=CC', 'C/C=C/C(O)/C=C\\C', 'CC(F)=C=C(C)F', 'FC=C=C=CF', 'CC=C(C)C(O)C(C)=CC', 'OC1CC(O)CC(O)C1', 'O[C@H]1C[C@@H](O)C[C@H](O)C1',
              'CC1OC(C)C1F', 'C1CC1C1CC1', 'CC1CC1C1CC1C', 'C1CCC(CC1)C1CCC(C)CC1', 'N[C@@H](Cc1ccccc1)C(O)=O', 'C[C@]12CC[C@H]3[C@@H](CCc4cc(O)ccc34)[C@@H]1CC[C@@H]2O']


def chiral_locals(m):
    """call the real __chiral_centers and return (result, locals at return) -- the local variables graph / stereogenic / pseudo are
    read with a profile hook, nothing in /repo is touched"""
    import sys
    m._chiral_morgan, m.atoms_rings      # inputs of the model: computed before
    m.__dict__.pop('_MoleculeStereo__chiral_centers', None)
    box = {}

    def prof(frame, event, arg):
        if event == 'return' and frame.f_code.co_name == '__chiral_centers':
            box['locals'] = {k: frame.f_locals.get(k) for k in ('graph', 'stereogenic', 'pseudo')}
    sys.setprofile(prof)
    try:
        res = (set(m.chiral_tetrahedrons), set(m.chiral_cis_trans), set(m.chiral_allenes))
    finally:
        sys.setprofile(None)
    return res, box.get('locals', {})


CHIRAL_EXTRA = """
Definition wtab (tab : list (Z * Z)) (x : Z) : Z := match zget tab x with Some v => v | None => 0 end.
Definition chiral_ok (g : mol) (ar : list (Z * list (list Z))) (tab : list (Z * Z)) (exp : list centre) (gr : list (Z * list Z)) (sg : list Z) : bool :=
  match registries_real g with
  | Ok r => match final_state g r ar (wtab tab) with
            | Ok s => graph_same (c_graph s) gr && zset_same (c_sg s) sg &&
                      match centres_of_state g r s with Ok l => centres_same l exp | Err _ => false end
            | Err _ => false end
  | Err _ => false end.
Definition chiral_err (g : mol) (ar : list (Z * list (list Z))) (tab : list (Z * Z)) : bool :=
  match registries_real g with
  | Ok r => match chiral_centres g r ar (wtab tab) with Err KeyError => true | _ => false end
  | Err _ => false end.
"""


def chiral_inputs(ck):
    from chython import smiles
    rng = random.Random(f'{ck.seed}:chiral')
    smis = list(CHIRAL_ZOO) + list(FIX_TEMPLATES) + [t.format(*c) for t, o, _ in PSEUDO_FAMILIES for c in itertools.product(*o)][::3]
    smis += corpus.sample(corpus.stereo_smiles(), 60 if ck.tier == 'quick' else 600, ck.seed, 'c12chiral')
    # every ring size 3..14 around an endocyclic double bond (one decoration per size in quick) and cyclic allenes / cumulenes
    fam = ring_size_family()
    smis += [x[2] for x in (fam if ck.tier != 'quick' else [f for k, f in enumerate(fam) if k % 4 == ck.seed % 4 or f[1] == 'fused' or f[2].count('(') == 0])]
    smis += [f'C1{"C" * k}C(C)=[C@]=C1' for k in range(2, 10)] + [f'C1{"C" * k}/C=C=C=C/1' for k in range(1, 9)]
    out = []
    for smi in smis:
        try:
            m = smiles(smi)
        except Exception:
            continue
        out.append((smi, 'as read', m))
        c = m.copy()
        c.clean_stereo()
        out.append((smi, 'no labels', c))
        r = corpus.renumber(m, rng)
        out.append((smi, 'renumbered', r))
        # half of the labels removed: dependent centres appear / disappear
        p = m.copy()
        lab = [a for _, a in p.atoms() if a.stereo is not None]
        for a in lab[::2]:
            a._stereo = None
        p.flush_cache()
        if lab:
            out.append((smi, 'half labelled', p))
    return out


def corr_chiral(ck):
    """__chiral_centers of the real code == model on the same molecule, atoms_rings and _chiral_morgan classes: the three result sets
    AND the local variables graph (after pruning, in dict order) and stereogenic, read at return with a profile hook"""
    import coqmol
    cases, meta = [], []
    for smi, kind, m in chiral_inputs(ck):
        try:
            (ct, cc, ca), loc = chiral_locals(m)
        except KeyError:
            g = coqmol.mol_term(m)
            ar = lst([f'({zraw(n)}, {lst([lst(list(r), zraw) for r in rs])})' for n, rs in m.atoms_rings.items()])
            tab = lst([f'({zraw(k)}, {zraw(v)})' for k, v in m._chiral_morgan.items()])
            cases.append(f'chiral_err {g} {ar} {tab}')
            meta.append((smi, kind, 'KeyError'))
            ck.count('chiral: raises KeyError')
            continue
        except Exception:
            continue
        g = coqmol.mol_term(m)
        ar = lst([f'({zraw(n)}, {lst([lst(list(r), zraw) for r in rs])})' for n, rs in m.atoms_rings.items()])
        tab = lst([f'({zraw(k)}, {zraw(v)})' for k, v in m._chiral_morgan.items()])
        exp = lst([f'(CT {zraw(n)})' for n in ct] + [f'(CC {zraw(a)} {zraw(c)})' for a, c in cc] + [f'(CA {zraw(n)})' for n in ca])
        gr = lst([f'({zraw(n)}, {lst(list(ms), zraw)})' for n, ms in (loc.get('graph') or {}).items()])
        sg = lst(list(loc.get('stereogenic') or ()), zraw)
        cases.append(f'chiral_ok {g} {ar} {tab} {exp} {gr} {sg}')
        meta.append((smi, kind, sorted(ct), sorted(cc), sorted(ca), loc.get('graph')))
        ck.case(('chiral', smi, kind, tuple(m._atoms)), nontrivial=bool(ct or cc or ca or loc.get('graph')))
        ck.count('chiral: ' + kind)
        ck.count('chiral: axes graph nodes after pruning', len(loc.get('graph') or {}))
        ck.count('chiral: chiral centres found', len(ct) + len(cc) + len(ca))
    ok, failing, log = coqcases.run_cases('c12chiral', 'Graph Stereo StereoRegistry StereoFix StereoChiral', cases, extra=CHIRAL_EXTRA, shard=25)
    ck.oblige('correspondence: __chiral_centers (result sets, axes graph after pruning, stereogenic set) == Coq model on the real atoms_rings / '
              '_chiral_morgan', ok and not failing, 'correspondence', log or str([meta[i] for i in failing[:5]]))
    ck.extra['chiral_cases'] = len(cases)
    if not ok or failing:
        search_stereogenic(ck, [x[0] for x in [meta[i] for i in failing[:40]]])
        search_pseudo(ck)
        ck.unchecked('correspondence StereoChiral model vs MoleculeStereo.__chiral_centers', log[-1500:], [repr(meta[i]) for i in failing[:20]])
    return ok and not failing


def search(ck, budget):
    """property-level oracles on the real code, independent of the model"""
    from chython import smiles
    from rdkit import Chem, RDLogger
    RDLogger.DisableLog('rdApp.*')
    rng = random.Random(ck.seed)
    # (1) tetrahedral: for every arrangement of the neighbours the sign flips iff the arrangement is odd
    for smi in ('[C@](F)(Cl)(Br)I', '[C@H](F)(Cl)Br', '[C@]([H])(F)(Cl)Br', 'N[C@@H](C)C(=O)O'):
        m = smiles(smi)
        n = next(k for k, a in m.atoms() if a.stereo is not None)
        nb = list(m._bonds[n])
        base = None
        for perm in itertools.permutations(range(len(nb))):
            env = [nb[i] for i in perm]
            inv = sum(1 for i in range(len(perm)) for j in range(i + 1, len(perm)) if perm[i] > perm[j])
            try:
                s = m._translate_tetrahedron_sign(n, env)
            except Exception as e:
                ck.counterexample(f'th-raises:{smi}:{perm}', f'_translate_tetrahedron_sign raises {type(e).__name__} on a valid neighbour order',
                                  {'smiles': smi, 'env': env}, type(e).__name__, 'a sign', 'parity law')
                continue
            if base is None:
                base = s
            ck.case(('law-th', smi, perm))
            if (s != base) != bool(inv % 2):
                ck.counterexample(f'th-parity:{smi}:{perm}', 'tetrahedral sign does not follow permutation parity',
                                  {'smiles': smi, 'env': env, 'perm': perm}, s, base ^ bool(inv % 2), 'parity law',
                                  replay_py=f"from chython import smiles; m=smiles({smi!r}); print(m._translate_tetrahedron_sign({n}, {env}))")
    # (2) RDKit agreement: every random-order respelling by chython denotes the same stereoisomer for RDKit,
    #     and flipping one centre / one double bond gives a different molecule for both toolkits
    pool = corpus.sample(corpus.stereo_smiles(), budget, ck.seed, 'c12')
    extra = ['C[C@H](N)C(=O)O', 'F/C=C/Cl', 'F/C=C\\Cl', 'C[C@@H]1CC[C@H](C)CC1', 'CC=[C@]=CC', 'C[C@]12CC[C@H](C1)C2(C)C',
             'OC[C@H]1O[C@@H](O)[C@H](O)[C@@H](O)[C@@H]1O', 'C(/F)(\\Cl)=C(/Br)I', 'F/C=C/C=C/Cl', '[C@H](F)(Cl)Br',
             'N1[C@H](C)CC1', '[C@@]1(F)(Cl)CCO1', 'C1C[C@H]1C' ]
    # explicit hydrogens on double bonds: every choice of which substituent carries the mark at each end
    for l1, l2 in (('[H]', 'C'), ('C', '[H]')):
        for r1, r2 in (('[H]', 'Cl'), ('Cl', '[H]')):
            for m1 in '/\\':
                for m2 in '/\\':
                    extra.append(f'{l1}{m1}C({l2})=C({m2}{r1}){r2}')
    extra += ['[H]/C(F)=C=C=C(/[H])Cl', '[H]C(F)=[C@]=C([H])Cl', '[H]C(F)=[C@@]=C(Cl)[H]', '[H][C@](F)(Cl)Br', 'F[C@]([H])(Cl)Br', 'F[C@](Cl)([H])Br',
              'F[C@](Cl)(Br)[H]']
    # ring-closure positions: stereocentres that carry two ring-closure digits (ring fusion, bridgehead, spiro atoms),
    # generated systematically, plus the corpus molecules that have such a centre; these get more random spellings
    import re
    fused = []
    for a in (3, 4, 5, 6):
        for c in (3, 4, 5, 6):
            for m1, m2 in (('@', '@'), ('@', '@@')):
                fused.append(f'O[C{m1}]12{"C" * (a - 2)}[C{m2}]1(N){"C" * (c - 2)}2')        # fused bicycle, both fusion atoms labelled
                fused.append(f'O[C{m1}]12{"C" * (a - 2)}[C{m2}H]1{"C" * (c - 2)}2')
            fused.append(f'C1{"C" * (a - 2)}[C@]12{"C" * (c - 2)}O2' if a > 2 else '')        # spiro
            fused.append(f'[C@]12(F){"C" * (a - 1)}[C@@](Cl)({"C" * (c - 1)}1)C2')             # bridged
    fused = [s for s in fused if s]
    fused += [s for s in corpus.stereo_smiles() if re.search(r'@@?H?\](\d|%\d\d){2}', s)][: (40 if ck.tier == 'quick' else 400)]
    many = set(fused)
    n_ok = 0
    for smi in extra + fused + pool:
        rd0 = Chem.MolFromSmiles(smi)
        if rd0 is None:
            continue
        try:
            m = smiles(smi)
        except Exception:
            continue
        if m is None:
            continue
        can_rd = Chem.MolToSmiles(rd0)
        n_st = sum(1 for _, a in m.atoms() if a.stereo is not None) + sum(1 for *_, bd in m.bonds() if bd.stereo is not None)
        ck.count(f'rdkit:stereo_elements={min(n_st, 6)}')
        ck.case(('rdkit', smi), nontrivial=n_st > 0)
        for k in range(13 if smi in many else 3):
            sp = format(m, 'r') if k else str(m)
            rd1 = Chem.MolFromSmiles(sp)
            if rd1 is None:
                continue  # aromaticity dialect differences are C01/C05 business
            c1 = Chem.MolToSmiles(rd1)
            if c1 != can_rd:
                # only stereo disagreements count here: compare without stereo first
                if Chem.MolToSmiles(rd1, isomericSmiles=False) != Chem.MolToSmiles(rd0, isomericSmiles=False):
                    continue
                # chython drops labels on centres it does not consider stereogenic; RDKit may keep them. compare only
                # when the number of labels survives
                if sp.count('@') + sp.count('/') + sp.count('\\') == 0 and n_st == 0:
                    continue
                if lost_labels(rd0, rd1):
                    continue
                if re.search(r'=(\d|%\d\d)', sp) and n_st > 1:
                    # known finding closure-double-bond-marks: a labelled double bond written AS the ring-closure bond next to another
                    # labelled double bond gets wrong direction marks
                    ck.counterexample('closure-double-bond-marks', 'a labelled double bond written as the ring-closure bond (C=1 ... C=1) of a conjugated system gets '
                                      'wrong direction marks', {'smiles': smi, 'respelled': sp}, c1, can_rd, 'RDKit canonical isomeric SMILES',
                                      replay_py=f"from chython import smiles; print(smiles('C/C1=C/C=C/CCCCCCC1') == smiles('C/C1=C\\C=C\\CCCCCCC1'))")
                    break
                ck.counterexample(f'rdkit-respell:{smi}', 'random-order SMILES of a stereo molecule denotes another stereoisomer for RDKit',
                                  {'smiles': smi, 'respelled': sp}, c1, can_rd, 'RDKit canonical isomeric SMILES',
                                  replay_py=f"from chython import smiles; m=smiles({smi!r}); print(str(m))")
                break
        else:
            n_ok += 1
        # mirror image / E-Z partner never equal
        if n_st:
            mir = mirror(smi)
            try:
                m2 = smiles(mir)
            except Exception:
                continue
            rd2 = Chem.MolFromSmiles(mir)
            if rd2 is None or m2 is None:
                continue
            same_rd = Chem.MolToSmiles(rd2) == can_rd
            same_ch = (m2 == m)
            ck.case(('mirror', smi), nontrivial=not same_rd)
            if same_ch and not same_rd:
                # chython equality ignores labels it dropped as non-stereogenic
                if sum(1 for _, a in m2.atoms() if a.stereo is not None) + sum(1 for *_, bd in m2.bonds() if bd.stereo is not None):
                    ck.counterexample(f'mirror-equal:{smi}', 'mirror-image / stereo-inverted molecule compares equal', {'a': smi, 'b': mir},
                                      'equal', 'different (RDKit)', 'RDKit canonical isomeric SMILES',
                                      replay_py=f"from chython import smiles; print(smiles({smi!r}) == smiles({mir!r}))")
    ck.extra['rdkit_agreements'] = n_ok
    search_stereogenic(ck, pool)
    search_mapped(ck, pool[:60 if ck.tier == 'quick' else 600])
    search_histories(ck, pool[:60 if ck.tier == 'quick' else 600])
    search_ring_sizes(ck)
    search_allenes(ck)
    search_printable(ck)
    search_closure_double_bond(ck)
    search_wedge(ck)
    search_api_cache(ck)
    search_closure_marks(ck)
    search_pseudo(ck)
    # (3) labels are kept only on stereogenic centres
    for smi, keeps in (('C[C@](C)(F)Cl', False), ('C[C@H](C)F', False), ('C[C@H](N)F', True), ('F/C=C(/Cl)Cl', False),
                       ('F/C=C/Cl', True), ('CC(C)=[C@]=CC', False), ('C[C@@H]1CC1', False), ('C/C=C/C', True)):
        m = smiles(smi)
        has = any(a.stereo is not None for _, a in m.atoms()) or any(bd.stereo is not None for *_, bd in m.bonds())
        ck.case(('stereogenic', smi))
        if has != keeps:
            ck.counterexample(f'stereogenic:{smi}', 'stereo label kept on a non-stereogenic centre / dropped from a stereogenic one',
                              {'smiles': smi}, has, keeps, 'by construction',
                              replay_py=f"from chython import smiles; m=smiles({smi!r}); print([a.stereo for _,a in m.atoms()])")


CUMULENE = None


def search_stereogenic(ck, pool):
    """labels are kept only on stereogenic centres: a molecule in which RDKit's stereo perception (FindPotentialStereo, the
    non-legacy algorithm, independent of chython) finds NO potential stereo element at all must not keep any label in chython;
    on the generated spiro / duplicate-substituent families the converse is checked too (a centre RDKit keeps is kept)."""
    from chython import smiles
    from rdkit import Chem
    global CUMULENE
    CUMULENE = Chem.MolFromSmarts('*=*=*')
    fam = []   # (smiles, family)
    sym = {3: 'CC', 4: 'CCC', 5: 'CCCC', 6: 'CCCCC'}                    # ring symmetric about the spiro atom
    uns = ['CCO', 'CCCO', 'COC' + 'C', 'CCNC', 'CC(C)C', 'C=CC', 'CC(=O)C' + 'C', 'CCCCO']   # rings not symmetric about it
    for a, sa in sym.items():
        for u in uns:
            for mk in ('@', '@@'):
                fam.append((f'C1{sa[1:]}[C{mk}]12{u}2', 'spiro-sym-unsym'))
        for b, sb in sym.items():
            fam.append((f'C1{sa[1:]}[C@]12{sb[1:]}C2', 'spiro-sym-sym'))
    for u1 in uns[:5]:
        for u2 in uns[:5]:
            fam.append((f'C1{u1}[C@]12{u2}2', 'spiro-unsym-unsym'))
    fam += [(x, 'acyclic') for x in ('C[C@](C)(F)Cl', 'CC[C@](CC)(F)Cl', 'C[C@H](C)O', 'C[C@H](CC)O', 'CC[C@](C)(F)Cl', 'F[C@](F)(Cl)Br',
                                     'C[C@@H](N)C(=O)O', 'OC(=O)[C@H](O)C(=O)O', 'C/C=C(/C)C', 'C/C=C(/C)CC', 'F/C=C(/F)F', 'F/C=C/F',
                                     'C[C@H]1CC1', 'C[C@H]1CCC1', 'C[C@H]1CCO1', 'C[C@@H]1CCCCC1', 'C[C@@H]1CCCC(C)C1')]
    # double bonds at hypervalent S / P (four neighbours: not planar, so no cis/trans): fixed in 2e29c31
    fam += [(x, 'hypervalent') for x in ('C/N=S(/C)(C)=O', 'C/C=P(/C)(C)C', 'C/N=S(/C)(=O)c1ccccc1', 'CN=S(C)(C)=O')]
    # trigonal carbons (carbenium ions, carbanions, radicals) are not stereogenic: a mark on them must not be kept (RDKit drops it)
    for core in ('F[C{m}{q}](Cl)Br', 'CC[C{m}{q}](C)O', 'OC(=O)[C{m}{q}](C)CC', 'N[C{m}{q}](C)c1ccccc1', 'C1CC[C{m}{q}](C)OC1'):
        for mk in ('@', '@@'):
            fam += [(core.format(m=mk, q='+'), 'trigonal'), (core.format(m=mk, q='-'), 'trigonal')]
            rad = core.format(m=mk, q='')
            idx = len(re.findall(r'Cl|Br|[A-Za-z]', rad[:rad.index('[C@')]))       # index of the marked atom in the string
            fam.append((f'{rad} |^1:{idx}|', 'trigonal'))
    fam += [(x, 'corpus') for x in pool]
    for smi, family in fam:
        rd = Chem.MolFromSmiles(smi)
        if rd is None:
            continue
        try:
            m = smiles(smi)
        except Exception:
            continue
        pot = Chem.FindPotentialStereo(rd, cleanIt=False, flagPossible=True)
        n_pot = len(pot)
        kept_rd = sum(1 for a in rd.GetAtoms() if a.GetChiralTag() != Chem.ChiralType.CHI_UNSPECIFIED) + \
            sum(1 for b in rd.GetBonds() if b.GetStereo() not in (Chem.BondStereo.STEREONONE, Chem.BondStereo.STEREOANY))
        kept_ch = sum(1 for _, a in m.atoms() if a.stereo is not None) + sum(1 for *_, bd in m.bonds() if bd.stereo is not None)
        ck.case(('stereogenic', smi), nontrivial=family != 'corpus' or n_pot == 0)
        ck.count(f'stereogenic:{family}')
        if kept_ch and n_pot == 0 and (rd.HasSubstructMatch(CUMULENE) or spirane_like(rd)):
            ck.count('stereogenic:skipped (allene/cumulene or C2-symmetric spirane: outside RDKit perception)')
            continue
        if kept_ch and n_pot == 0:
            ck.counterexample(f'label-on-nonstereogenic:{smi}', 'a stereo label is kept in a molecule that has no stereogenic element at all '
                              '(RDKit FindPotentialStereo finds none)', {'smiles': smi, 'family': family}, f'{kept_ch} label(s) kept: {m}',
                              'no label', 'RDKit FindPotentialStereo',
                              replay_py=f"from chython import smiles; m=smiles({smi!r}); print(str(m), [(n,a.stereo) for n,a in m.atoms() if a.stereo is not None])")
        elif family == 'trigonal' and '@@' not in smi and smiles(smi) != smiles(smi.replace('@', '@@')):
            ck.counterexample(f'trigonal-enantiomers:{smi}', 'the @ and @@ spellings of a trigonal carbon (cation / anion / radical) are different molecules',
                              {'smiles': smi}, f'{smiles(smi)} != {smiles(smi.replace("@", "@@"))}', 'equal', 'RDKit drops the mark: one species',
                              replay_py=f"from chython import smiles; print(smiles({smi!r}) == smiles({smi.replace('@', '@@')!r}))")
        elif family != 'corpus' and kept_rd and not kept_ch:
            ck.counterexample(f'label-dropped:{smi}', 'the label of a stereogenic centre (kept by RDKit) is dropped on reading',
                              {'smiles': smi, 'family': family}, str(m), f'{kept_rd} label(s): {Chem.MolToSmiles(rd)}', 'RDKit',
                              replay_py=f"from chython import smiles; print(smiles({smi!r}))")


def search_mapped(ck, pool, families=True):
    """atom-map numbers must not change the meaning of '@' / '@@' / '/' / '\\': a spelling with random map numbers on every atom
    (written by RDKit, rooted at a stereocentre or in random order) must be read by chython as the stereoisomer that RDKit reads
    from the very same string.  Atom numbers then differ from positions in the string (first-atom rule, neighbour order)."""
    from chython import smiles
    from rdkit import Chem
    rng = random.Random(f'{ck.seed}:mapped')

    def rd_canon(text):
        rd = Chem.MolFromSmiles(text)
        if rd is None:
            return None
        for a in rd.GetAtoms():
            a.SetAtomMapNum(0)
        return Chem.MolToSmiles(rd)
    fam = ['C[C@H](F)Cl', 'C[C@@H](O)N', '[C@H](F)(Cl)Br', '[C@@H](C)(O)N', 'O.[C@H](F)(Cl)Br', 'C1O[C@H]1C', 'C[C@](F)(Cl)Br', 'N[C@@H](C)C(=O)O',
           'C[C@@H]1CC[C@H](C)CC1', 'CC(F)=[C@]=C(Cl)Br', 'FC=[C@@]=CCl', 'F/C=C/Cl', 'F/C=C\\Cl', 'C[C@H](N)/C=C/[C@@H](O)C', 'F[C@]([H])(Cl)Br',
           'OC[C@H]1O[C@@H](O)[C@H](O)[C@@H](O)[C@@H]1O', 'C[C@]12CC[C@H](C1)C2(C)C', 'F/C=C/C=C\\C=C/Cl']
    for smi in (fam if families else []) + list(pool):
        exp = rd_canon(smi)
        try:
            ref = smiles(smi)
        except Exception:
            continue
        if exp is None or ref is None or rd_canon(str(ref)) != exp:
            continue        # the unmapped spelling is already read differently by the two toolkits: judged by the respelling oracle
        for sp in mapped_spellings(smi, rng, 4 if smi in fam else 2):
            try:
                m = smiles(sp)
            except Exception:
                continue
            got = rd_canon(str(m))
            ck.case(('mapped', sp))
            ck.count('mapped search: spellings' + (' starting with a stereo atom' if re.match(r'\[[A-Za-z]+@', sp) else ''))
            if got is not None and got != exp:
                ck.counterexample(f'mapped-spelling:{smi}', 'a SMILES with atom-map numbers is read as another stereoisomer than the same string means for RDKit '
                                  '(atom numbers differ from positions in the string)', {'smiles': smi, 'mapped': sp}, f'{m} (RDKit: {got})', exp,
                                  'RDKit canonical isomeric SMILES of the mapped string (maps removed)',
                                  replay_py=f"from chython import smiles; print(smiles({sp!r}), smiles({smi!r}))")
                break


def rdkit_symmetric_end_bonds(m):
    """labelled plain double bonds of a chython molecule one end of which carries two substituents in one RDKit symmetry class
    (CanonicalRankAtoms without tie breaking, computed on the constitution: no stereo passed) or two hydrogens: such a bond has
    no E/Z isomers unless the two substituents differ ONLY in their own stereo labels (excluded: see below)"""
    from rdkit import Chem
    idx = {n: i for i, n in enumerate(m._atoms)}
    rw = Chem.RWMol()
    for n, a in m._atoms.items():
        ra = Chem.Atom(a.atomic_number)
        ra.SetFormalCharge(a.charge)
        ra.SetNoImplicit(True)
        ra.SetNumExplicitHs(a.implicit_hydrogens or 0)
        if a.isotope:
            ra.SetIsotope(a.isotope)
        rw.AddAtom(ra)
    for n, k, bd in m.bonds():
        if int(bd) not in (1, 2, 3):
            return []
        rw.AddBond(idx[n], idx[k], {1: Chem.BondType.SINGLE, 2: Chem.BondType.DOUBLE, 3: Chem.BondType.TRIPLE}[int(bd)])
    rd = rw.GetMol()
    try:
        Chem.SanitizeMol(rd)
    except Exception:
        return []
    ranks = list(Chem.CanonicalRankAtoms(rd, breakTies=False, includeChirality=False))
    only_label = n_labels(m) == (0, 1)
    out = []
    for n, k, bd in m.bonds():
        if bd.stereo is None or int(bd) != 2:
            continue
        for e, o in ((n, k), (k, n)):
            subs = [x for x in m._bonds[e] if x != o]
            if any(int(m._bonds[e][x]) != 1 for x in subs):
                break       # cumulene / special bond: not judged here
            if len(subs) == 1 and (m._atoms[e].implicit_hydrogens or 0) >= 2:
                out.append((n, k, e))
                break
            # two substituents in one symmetry class: identical for sure when both are terminal atoms, or when the molecule carries no
            # other label; a ring through the end atom is left out (alkylidene rings: axis chirality together with a ring centre)
            if len(subs) == 2 and ranks[idx[subs[0]]] == ranks[idx[subs[1]]] and not rd.GetRingInfo().NumAtomRings(idx[e]) and \
                    (only_label or all(len(m._bonds[x]) == 1 for x in subs)):
                out.append((n, k, e))
                break
    return out


def n_labels(m):
    return sum(1 for _, a in m.atoms() if a.stereo is not None), sum(1 for *_, bd in m.bonds() if bd.stereo is not None)


def search_histories(ck, pool):
    """labels are kept only on stereogenic centres AFTER AN EDIT: a labelled molecule is changed through the public API
    (delete_atom, delete + add_atom + add_bond = substitution, growth at a leaf atom; each calls fix_stereo) and then
    (1) the molecule read back from its own SMILES (built from scratch) carries as many atom / bond labels, (2) no labelled double
    bond has an acyclic end with two substituents in one RDKit symmetry class (judged when the substituents are terminal atoms or the
    molecule carries no other label, so that they cannot differ in their own stereo) or with two hydrogens"""
    from chython import smiles
    rng = random.Random(f'{ck.seed}:histories')
    fam = ['C/C=C(/C)CC', 'C/C=C(\\C)CC', 'F/C=C(/Cl)Br', 'C/C=C=C=C(/C)CC', 'C/C=C/C=C(/C)CC', 'C/C=C(/C)CCC', 'C/C=C/C', 'C[C@H](F)CC', 'C[C@](F)(Cl)CC',
           'CC(F)=[C@]=C(C)CC', 'C[C@H](O)/C=C(/C)CC', 'CC[C@H](C)/C=C/[C@@H](C)CC', 'C/C=C(/CC)C(C)C', 'C/C(CC)=C(/C)CC', 'F/C(Cl)=C(/F)Br',
           'OC(=O)/C=C(/C)CC', 'C[C@H](CC)C(=O)O', 'C[C@@](CC)(CCC)O', 'C/C=C(/C)C(C)=O', 'CC[C@H](O)[C@@H](F)[C@H](O)C', 'C/C=C1/CC[C@H](CC)CC1']
    for smi in fam + list(pool):
        try:
            m = smiles(smi)
        except Exception:
            continue
        leaves = [n for n in m._atoms if len(m._bonds[n]) == 1 and m._atoms[n].atomic_number != 1]
        if not leaves or n_labels(m) == (0, 0):
            continue
        for _ in range(8 if smi in fam else 3):
            c = m.copy()
            n = rng.choice(leaves)
            nb = next(iter(c._bonds[n]))
            kind = rng.choice(['delete', 'substitute', 'grow'])
            try:
                if kind == 'delete':
                    c.delete_atom(n)
                    call = f'm.delete_atom({n})'
                elif kind == 'substitute':
                    o = int(c._bonds[n][nb])
                    el = rng.choice(['C', 'Cl', 'F', 'O', 'N']) if o == 1 else 'C'
                    c.delete_atom(n)
                    x = c.add_atom(el)
                    c.add_bond(nb, x, o)
                    call = f'm.delete_atom({n}); m.add_bond({nb}, m.add_atom({el!r}), {o})'
                else:
                    el = rng.choice(['C', 'F'])
                    x = c.add_atom(el)
                    c.add_bond(n, x, 1)
                    call = f'm.add_bond({n}, m.add_atom({el!r}), 1)'
            except Exception:
                continue
            c.flush_cache()
            try:
                text = str(c)
                back = smiles(text)
            except Exception:
                continue
            la, lb = n_labels(c)
            ck.case(('history', smi, kind, n), nontrivial=(la, lb) != n_labels(m))
            ck.count(f'history search: {kind}' + (' (a label is dropped)' if (la, lb) != n_labels(m) else ''))
            replay = f"from chython import smiles; m=smiles({smi!r}); {call}; m.flush_cache(); print(m, [(n,k,b.stereo) for n,k,b in m.bonds() if b.stereo is not None])"
            sym = rdkit_symmetric_end_bonds(c)
            if sym:
                ck.counterexample(f'history-label-on-symmetric-end:{smi}:{kind}:{n}', 'after an edit an E/Z label is kept on a double bond one end of which carries two '
                                  'identical substituents (RDKit symmetry classes)', {'smiles': smi, 'edit': call}, f'{text}: labelled bonds {sym}', 'label dropped',
                                  'RDKit CanonicalRankAtoms on the edited constitution', replay_py=replay)
            elif back is not None and n_labels(back) != (la, lb):
                ck.counterexample(f'history-labels:{smi}:{kind}:{n}', 'an edited molecule carries other stereo labels than the same molecule built from scratch '
                                  '(read back from its own SMILES)', {'smiles': smi, 'edit': call}, f'{text}: {la} atom / {lb} bond labels',
                                  f'{back}: {n_labels(back)[0]} atom / {n_labels(back)[1]} bond labels', 'molecule rebuilt from scratch', replay_py=replay)



def ring_size_family():
    """(ring size class, kind, E spelling, Z spelling): one endocyclic double bond in monocycles of EVERY size 3..14 (plain, hetero
    atom next to the double bond, gem-dimethyl neighbour; unsubstituted / methyl / F,Cl substituted double bond) and in a ring fused
    to a cyclopentane: sweeps every ring-size threshold of the stereogenicity rules from both sides"""
    out = []
    for size in range(3, 15):
        chain = 'C' * max(size - 4, 0)
        if size == 3:
            out.append((size, 'ene', 'C1/C=C/1', 'C1/C=C\\1'))
            continue
        for head, tail in (('C1', 'C1'), ('O1', 'C1'), ('C1', 'N1'), ('C1', 'C1(C)C')):
            for db in ('/C=C', '/C(C)=C', '/C(F)=C(Cl)'):
                out.append((size, 'ene', f'{head}{chain}{db}/{tail}', f'{head}{chain}{db}\\{tail}'))
        if size >= 6:
            out.append((size, 'fused', f'C1{"C" * (size - 6)}C2CCCC2/C=C/1', f'C1{"C" * (size - 6)}C2CCCC2/C=C\\1'))
    return out


def search_ring_sizes(ck):
    """endocyclic double bonds, every ring size: the E and the Z spelling are equal molecules for chython exactly when they are for
    RDKit (small rings: one molecule, no label kept; from the ring size on where RDKit keeps E/Z: two), and what chython writes
    denotes for RDKit the isomer RDKit reads from the input"""
    from chython import smiles
    from rdkit import Chem
    for size, kind, e, z in ring_size_family():
        re_, rz = Chem.MolFromSmiles(e), Chem.MolFromSmiles(z)
        if re_ is None or rz is None:
            continue
        ce, cz = Chem.MolToSmiles(re_), Chem.MolToSmiles(rz)
        try:
            me, mz = smiles(e), smiles(z)
        except Exception:
            continue
        ck.case(('ring-size', e), nontrivial=ce != cz)
        ck.count(f'ring-size search: ring of {size} atoms' + (' (E/Z exists for RDKit)' if ce != cz else ''))
        if (me == mz) != (ce == cz):
            ck.counterexample(f'ring-size-ez:{e}', 'the E and Z spellings of an endocyclic double bond compare ' + ('equal' if me == mz else 'unequal') +
                              ' although RDKit reads ' + ('two different molecules' if ce != cz else 'one molecule') + f' (ring size class {size})',
                              {'E': e, 'Z': z}, f'{me} / {mz}', f'{ce} / {cz}', 'RDKit canonical isomeric SMILES',
                              replay_py=f"from chython import smiles; print(smiles({e!r}), smiles({z!r}), smiles({e!r}) == smiles({z!r}))")
            continue
        for text, m, c in ((e, me, ce), (z, mz, cz)):
            r = Chem.MolFromSmiles(str(m))
            if r is not None and Chem.MolToSmiles(r) != c:
                ck.counterexample(f'ring-size-denotes:{text}', 'the SMILES chython writes for an endocyclic double bond denotes another isomer for RDKit than the input',
                                  {'smiles': text}, f'{m} (RDKit: {Chem.MolToSmiles(r)})', c, 'RDKit canonical isomeric SMILES',
                                  replay_py=f"from chython import smiles; print(smiles({text!r}))")
                break



def search_closure_double_bond(ck):
    """E/Z isomers of a macrocyclic diene whose canonical string writes one labelled double bond as the ring-closure bond: they must
    not compare equal (known finding closure-double-bond-marks)"""
    from chython import smiles
    from rdkit import Chem
    for a, c in (('C/C1=C/C=C/CCCCCCC1', 'C/C1=C\\C=C\\CCCCCCC1'), ('C/C1=C/CCCCCCCC1', 'C/C1=C\\CCCCCCCC1'), ('C/C1=C/C=C/CCCCC(=O)N1', 'C/C1=C\\C=C\\CCCCC(=O)N1')):
        ma, mc = smiles(a), smiles(c)
        ck.case(('closure-diene', a))
        ck.count('closure double bond: isomer pairs')
        differ_rd = Chem.MolToSmiles(Chem.MolFromSmiles(a)) != Chem.MolToSmiles(Chem.MolFromSmiles(c))
        if differ_rd and ma == mc:
            ck.counterexample('closure-double-bond-marks', 'two E/Z isomers compare equal: the labelled double bond written as the ring-closure bond (C=1 ... C=1) next to '
                              'another labelled double bond gets wrong direction marks in the canonical SMILES', {'a': a, 'b': c}, f'equal: {ma}', 'different molecules',
                              'RDKit canonical isomeric SMILES of the two inputs differ',
                              replay_py=f"from chython import smiles; print(smiles({a!r}) == smiles({c!r}))")


def search_printable(ck):
    """every molecule that smiles() returns can be written, hashed and compared (str / hash / == never raise): cut cumulene
    chains at hypervalent atoms shared an end atom between two cis/trans entries (fixed in 2e29c31)"""
    from chython import smiles
    for smi in ('C/N=S(/C)(C)=NC', 'C/N=S(/C)(C)=N/C', 'C/C=S(/C)(C)=C/C', 'CN=S(C)(C)=NC', 'C/C=C/S(C)(=O)=NC', 'F/C=C=S(=O)=NC',
                'C/N=S(/C)(C)=O', 'C/C=C=C=C/C', 'C/C=C/C=C/C', 'O=S(=O)(/C=C/C)N=C'):
        try:
            m = smiles(smi)
        except Exception:
            continue
        ck.case(('printable', smi))
        ck.count('printable: hypervalent / conjugated double bonds')
        try:
            s = str(m)
            hash(m)
            smiles(s)
        except Exception as e:
            ck.counterexample(f'str-raises:{smi}', f'a molecule returned by smiles() cannot be written: str() raises {type(e).__name__}',
                              {'smiles': smi}, repr(e), 'a SMILES string', 'totality of str() on reader output',
                              replay_py=f"from chython import smiles; m=smiles({smi!r}); print(str(m))")


def search_allenes(ck):
    """allene spellings aC(b)=[C@]=C(c)d denote the same configuration exactly when their tetrahedral analogues a[C@](b)(c)d do
    (OpenSMILES extended tetrahedral rule); RDKit judges the analogues and never sees an allene.  All spellings of one
    configuration must give ONE chython canonical string / equal molecules, the two configurations different ones, and the
    random-order output must read back as the same molecule."""
    from chython import smiles
    from rdkit import Chem
    import itertools
    for subs in (('C', 'F', 'Cl', 'Br'), ('C', 'F', 'C', 'Cl'), ('N', 'O', 'Cl', 'C'), ('C', 'F', '[H]', 'Cl'), ('C', '[H]', '[H]', 'Cl')):
        groups = {}
        left, right = subs[:2], subs[2:]
        for l in itertools.permutations(left):
            for r in itertools.permutations(right):
                for mk in ('@', '@@'):
                    for flip in (False, True):      # write the allene from either end
                        a, b, c, d = (l + r) if not flip else (r + l)
                        if a == '[H]':
                            continue                 # a SMILES cannot start with a bare explicit H branch here
                        al = f'{a}C({b})=[C{mk}]=C({c}){d}'
                        th = f'{a}[C{mk}]({b})({c}){d}'
                        rd = Chem.MolFromSmiles(th)
                        if rd is None:
                            continue
                        key = Chem.MolToSmiles(rd)
                        groups.setdefault(key, []).append(al)
        if len(groups) != 2:
            continue    # the analogue is not a stereocentre for RDKit (duplicate substituents): nothing to judge
        canon = {}
        for key, spellings in groups.items():
            seen = {}
            for al in spellings:
                try:
                    m = smiles(al)
                except Exception as e:
                    ck.counterexample(f'allene-raises:{al}', f'reading a stereo allene raises {type(e).__name__}', {'smiles': al}, repr(e), 'a molecule', 'OpenSMILES')
                    continue
                ck.case(('allene', al))
                ck.count('allene spellings')
                seen.setdefault(str(m), []).append(al)
                back = smiles(format(m, 'r'))
                if back != m:
                    ck.counterexample(f'allene-respell:{al}', 'random-order SMILES of a stereo allene reads back as a different molecule',
                                      {'smiles': al}, str(back), str(m), 'chython reader on chython writer output',
                                      replay_py=f"from chython import smiles; m=smiles({al!r}); print(m, smiles(format(m,'r')))")
            if len(seen) > 1:
                ex = [v[0] for v in seen.values()][:2]
                ck.counterexample(f'allene-spellings:{ex[0]}', 'equivalent spellings of one allene configuration give different canonical strings '
                                  '(equivalence judged by RDKit on the tetrahedral analogues)', {'spellings': ex}, sorted(seen), 'one string',
                                  'OpenSMILES extended tetrahedral rule + RDKit',
                                  replay_py=f"from chython import smiles; print(smiles({ex[0]!r}), smiles({ex[1]!r}))")
            canon[key] = set(seen)
        ks = list(canon)
        if len(ks) == 2 and canon[ks[0]] & canon[ks[1]]:
            ck.counterexample(f'allene-enantiomers:{subs}', 'the two configurations of an allene share a canonical string', {'substituents': subs},
                              sorted(canon[ks[0]] & canon[ks[1]]), 'different strings', 'OpenSMILES extended tetrahedral rule + RDKit')


def spirane_like(rd):
    """a ring atom with four ring neighbours that form two symmetry-equivalent pairs, each pair split over two different rings
    (1,6-dioxaspiro[4.4]nonane): chiral although every neighbour has an equivalent partner; RDKit does not perceive it"""
    from rdkit import Chem
    ranks = list(Chem.CanonicalRankAtoms(rd, breakTies=False, includeChirality=False))
    ri = rd.GetRingInfo()
    rings = [set(r) for r in ri.AtomRings()]
    for a in rd.GetAtoms():
        nb = [x.GetIdx() for x in a.GetNeighbors()]
        if len(nb) != 4:
            continue
        cls = sorted(ranks[x] for x in nb)
        if not (cls[0] == cls[1] and cls[2] == cls[3] and cls[1] != cls[2]):
            continue
        i = a.GetIdx()
        def same_ring(x, y):
            return any(i in r and x in r and y in r for r in rings)
        pairs = [(x, y) for k, x in enumerate(nb) for y in nb[k + 1:] if ranks[x] == ranks[y]]
        if all(not same_ring(x, y) for x, y in pairs) and all(any(i in r and x in r for r in rings) for x in nb):
            return True
    return False


def lost_labels(rd0, rd1):
    from rdkit import Chem
    c0 = len(Chem.FindMolChiralCenters(rd0, useLegacyImplementation=False))
    c1 = len(Chem.FindMolChiralCenters(rd1, useLegacyImplementation=False))
    d0 = sum(1 for bd in rd0.GetBonds() if bd.GetStereo() != Chem.BondStereo.STEREONONE)
    d1 = sum(1 for bd in rd1.GetBonds() if bd.GetStereo() != Chem.BondStereo.STEREONONE)
    return c1 < c0 or d1 < d0


def mirror(smi):
    """a stereo partner of the molecule that is a different spelling of a (generally) different stereoisomer:
    all tetrahedral marks inverted, or - when there are none - one double bond flipped through RDKit"""
    if '@' in smi:
        return smi.replace('@@', '\0').replace('@', '@@').replace('\0', '@')
    from rdkit import Chem
    rd = Chem.MolFromSmiles(smi)
    for bd in rd.GetBonds():
        st = bd.GetStereo()
        if st in (Chem.BondStereo.STEREOE, Chem.BondStereo.STEREOZ):
            bd.SetStereo(Chem.BondStereo.STEREOZ if st == Chem.BondStereo.STEREOE else Chem.BondStereo.STEREOE)
            return Chem.MolToSmiles(rd)
    return smi


def run(ck):
    ck.trusted += ['translators tools/gen_stereo.py (Python ast: the two dict displays, compared constants), tools/gen_stereobody.py (statement-by-statement translation of the sign '
                   'functions, sign chains, tetrahedron translation, first-atom rule), tools/gen_stereoreg.py (loop body of stereogenic_cumulenes), tools/gen_elements.py '
                   '(is_forming_single/double_bonds)',
                   'correspondence runner harness/checks/C12.py (incl. the tracing wrappers it installs on MoleculeContainer._format_atom / __ct_map / '
                   'add_cis_trans_stereo and postprocess_molecule inside the check process) + harness/coqcases.py + harness/coqmol.py',
                   'CachedMethods shim harness/boot.py', 'CPython 3.12.1', 'RDKit 2026.3 (search only)']
    ck.assumptions += ['the translate functions, the registries, the SMILES mark rules and the fix_stereo loop are hand-modelled (coq/model/Stereo.v, '
                       'StereoRegistry.v, StereoSmiles.v, StereoFix.v); the sign functions, the sign chains of _translate_cis_trans/allene_sign, the body of '
                       '_translate_tetrahedron_sign, the first-atom rule of postprocess_molecule and the loop body of stereogenic_cumulenes are ALSO translated from '
                       'the source on every run and proved equal to the hand models (proofs/StereoBodyTie.v, StereoRegBodyTie.v); for the rest tie = correspondence (exhaustive argument tuples on small molecules, generated + '
                       'corpus molecules, traced real calls); coordinates are modelled over Z (the code uses floats)',
                       '__chiral_centers is modelled with atoms_rings and the _chiral_morgan classes as inputs (taken from the real code in the correspondence; '
                       'local variables read with sys.setprofile); _chiral_morgan itself is a parameter (C01 models it); toolkit agreement is RDKit search only',
                       'round-trip theorems assume the reader sees the neighbour order the writer used (parser order = writer visited order)']
    ck.extra['rule'] = ('correspondence: (1) every (molecule, env arrangement incl. malformed, sign) of 5+7+4 seed molecules, random integer points for the '
                        'geometric functions; (2) registries of cumulene chains 2-6 atoms x end decorations, a zoo of hypervalent / metal / charged / '
                        'malformed molecules, corpus molecules, each also with shuffled numbering and insertion orders; (3) every stereo mark the real writer '
                        'emits and the real reader interprets (incl. the mark / neighbour order passed to add_atom_stereo) on family strings + corpus molecules in canonical, random '
                        'and atom-mapped (RDKit-written, random map numbers) spellings; (4) fix_stereo on label '
                        'states of 27 templates. non-trivial = the implementation returned a sign / the molecule has a registry entry / a label is dropped or '
                        'several labels interact. search: corpus stereo molecules respelled by chython and re-read by RDKit; non-trivial = has at least one '
                        'stereo element; atom-mapped spellings written by RDKit must be read as the isomer RDKit reads; labelled molecules edited through the API (delete / substitute / '
                        'grow at a leaf atom) must carry the labels of the same molecule read back from its own SMILES and no label on a double bond with a symmetric end')
    random.seed(f'{ck.seed}:global')     # format(mol, 'r') draws from the global generator: fixed per VERIF_SEED
    proved = common.standard_proof_steps(ck, translators=['stereo', 'stereobody', 'stereoreg', 'elements'], extra_targets=['model/StereoRegistry.vo', 'model/StereoSmiles.vo', 'model/StereoFix.vo', 'model/StereoWedge.vo', 'model/StereoParse.vo', 'model/StereoChiral.vo'])
    tied = corr_translate(ck)
    tied = corr_registries(ck) and tied
    tied = corr_smiles_marks(ck) and tied
    tied = corr_fix_stereo(ck) and tied
    tied = corr_wedge(ck) and tied
    tied = corr_parse_marks(ck) and tied
    tied = corr_chiral(ck) and tied
    search(ck, 150 if ck.tier == 'quick' else 1500)
    ck.extra['proved'] = proved
    ck.extra['tied'] = tied
