"""C11, MRV part: correspondence between the real chython/files/MRVrw.py and the Coq model coq/model/Mrv.v.

(i)   writer: the text MRVWrite emits for a molecule (everything between `<cml>\\n` and `</cml>\\n`)  ==  Mrv.mrv_record_text
(ii)  lxml tie: xml_dict of the parsed real output (the 'molecule' dict, iterparse like MRVRead)        ==  Mrv.mrv_dict (write_mrv ..)
(iii) reader: parse_molecule(dict)  ==  Mrv.parse_molecule (dict converted), for the written dicts, for damaged / hand-made dicts
      (element form and array form) and for the repository's own test/*.mrv; exceptions are compared by type.

(iv)  the XML layer alone: lxml + xml_dict on well-formed start tags / text nodes  ==  Mrv.scan_attrs + xml_attrs / xml_text.

The module is imported by harness/checks/C11.py; C11 itself is looked up late (_c11) because C11 imports this module.
Cases are Coq boolean expressions over helpers of C11.EXTRA + EXTRA_MRV, evaluated with vm_compute by coqcases.run_cases(.., 'Mdl Mrv', ..)."""
import copy
import io
import os
import random

from coqfmt import zraw, b, lst, opt, tup

EXTRA_MRV = r"""
(* MRV helpers: hydrogen counts travel as integers, -1 = None *)
Definition MH (l : list Z) : list (option Z) := map (fun v => if v <? 0 then None else Some v) l.
Definition mrv_written_dict (mapping : bool) (g : wmol) (hs : list (option Z)) : pyres mdict :=
  do w <- write_mrv mapping g hs; mrv_dict (wm_name g) w.
(* (i) record text, (ii) dict handed over by the XML layer, (iii) parse of a dict; tol: coordinates with many digits *)
Definition mrv_text_ok mapping g hs meta (t : pyres str) : bool := pyres_eqb str_eqb (mrv_record_text mapping g (MH hs) meta) t.
Definition mrv_dict_ok mapping g hs (d : mdict) : bool := pyres_eqb mdict_eqb (mrv_written_dict mapping g (MH hs)) (Ok d).
Definition mrv_parse_ok (tol : bool) (d : mdict) (e : pyres mparsed) : bool := pyres_eqb (mparsed_cmp tol) (parse_molecule d) e.
(* the whole chain in the model on the writer input == the real parse of the real output *)
Definition mrv_chain_ok mapping g hs (e : pyres mparsed) : bool := pyres_eqb mparsed_eqb (mrv_write_read mapping g (MH hs)) e.
Definition AT (l : list str) : attrs := pairs_of l.
(* the XML layer alone: the '@' entries xml_dict makes of a start tag ` k="v" ...`, the '$' entry of a text node *)
Definition mrv_tag_ok (t : str) (e : option attrs) : bool :=
  option_eqb attrs_eqb (option_map xml_attrs (scan_attrs (S (List.length t)) t)) e.
Definition mrv_textnode_ok (t : str) (e : option str) : bool := option_eqb str_eqb (xml_text t) e.
Definition MA (el : str) (iso chg map hyd : option Z) (rad : option bool) (x y z : option fval) : matom :=
  mk_matom el iso chg rad map x y z hyd.
"""

_MISSING = object()


def _c11():
    """the C11 check module, whatever name it was imported under (checks.C11 by ./check, C11 stand-alone); it imports this module,
    hence the late lookup"""
    import sys
    for name in ('checks.C11', 'C11'):
        m = sys.modules.get(name)
        if m is not None and hasattr(m, 'molecule_pool'):
            return m
    try:
        from checks import C11
    except ImportError:
        import C11
    return C11


def _ascii(t):
    return all(0 < ord(c) < 128 for c in t)


def dict_texts(d):
    """every str reachable in a dict produced by xml_dict (keys and values)"""
    if isinstance(d, str):
        yield d
    elif isinstance(d, dict):
        for k, v in d.items():
            yield k
            yield from dict_texts(v)
    elif isinstance(d, (list, tuple)):
        for x in d:
            yield from dict_texts(x)


# ---------------------------------------------------------------------------------------------------------------
# Python values -> Coq terms

def cattrs(d):
    """the '@' entries of one xml_dict level, in insertion order -> Mrv.attrs"""
    C11 = _c11()
    items = [x for k, v in d.items() if k.startswith('@') and isinstance(v, str) for x in (k, v)]
    f = C11.cjoined(items, chr(1), 'UF') or lst(items, C11.cstr)
    return f'(AT {f})'


def cmbond(bd):
    C11 = _c11()
    s = bd.get('bondStereo', _MISSING)
    if s is _MISSING:
        st = 'BsAbsent'
    elif isinstance(s, dict):
        st = f'(BsText {opt(s.get("$"), C11.cstr)})'
    else:
        st = 'BsList'
    return f'(mk_mbond {cattrs(bd)} {st})'


def cmdict(d):
    """the molecule dict of xml_dict -> Mrv.mdict"""
    aa = d.get('atomArray', _MISSING)
    if aa is _MISSING:
        ca = 'AaMissing'
    elif not isinstance(aa, dict):
        ca = 'AaList'
    elif 'atom' in aa:
        da = aa['atom']
        if isinstance(da, dict):
            da = (da,)
        ca = f'(AaAtoms {lst(da, cattrs)})'
    else:
        ca = f'(AaArray {cattrs(aa)})'
    ba = d.get('bondArray', _MISSING)
    if ba is _MISSING:
        cb = 'None'
    elif isinstance(ba, dict) and 'bond' in ba:
        db = ba['bond']
        if isinstance(db, dict):
            db = (db,)
        cb = f'(Some {lst(db, cmbond)})'
    else:
        cb = '(Some [])'
    return f'(mk_mdict {cattrs(d)} {ca} {cb})'


def cmatom(a):
    C11 = _c11()

    def g(k, f):
        return opt(a.get(k), f)
    return ('(MA ' + ' '.join([C11.cstr(a['element']), g('isotope', zraw), g('charge', zraw), g('parsed_mapping', zraw), g('implicit_hydrogens', zraw),
                               g('is_radical', b), g('x', C11.cfval), g('y', C11.cfval), g('z', C11.cfval)]) + ')')


def cmparsed(r):
    C11 = _c11()
    return ('(mk_mparsed ' + ' '.join([opt(r['title'], C11.cstr), lst(r['atoms'], cmatom), lst(r['bonds'], C11.czzz), lst(r['stereo'], C11.czzz),
                                       lst(r['log'], C11.cstr), lst(list(r['atom_map'].items()), lambda kv: tup(C11.cstr(kv[0]), zraw(kv[1])))]) + ')')


def cwmol_mrv(m):
    """(WM ..) with the x2 / y2 fields as MRVWrite formats them, and the hydrogen counts (-1 = None)"""
    C11 = _c11()
    fields = [m.name]
    nums = []
    hs = []
    for n, a in m.atoms():
        fields += [a.atomic_symbol, f'{a.x * 2:.4f}', f'{a.y * 2:.4f}', '0']
        nums.append(tup(zraw(n), zraw(a.charge), zraw(-1 if a.isotope is None else a.isotope), zraw(int(a.is_radical))))
        hs.append(zraw(-1 if a.implicit_hydrogens is None else a.implicit_hydrogens))
    wedge = [C11.czzz(w) for w in m._wedge_map]
    bonds = [C11.czzz((n, k, bd.order)) for n, k, bd in m.bonds()]
    f = C11.cjoined(fields, chr(1), 'UF') or lst(fields, C11.cstr)
    return f'(WM {f} {lst(nums)} {lst(wedge)} {lst(bonds)})', lst(hs)


# ---------------------------------------------------------------------------------------------------------------
# the real code

def mrv_text(m, mapping=True):
    from chython.files import MRVWrite
    s = io.StringIO()
    with MRVWrite(s, mapping=mapping) as w:
        w.write(m)
    return s.getvalue()


def mrv_dicts(text):
    """the dicts MRVRead hands to parse_molecule / read_metadata: xml_dict of every MChemicalStruct element"""
    from lxml.etree import iterparse
    from chython.files.MRVrw import xml_dict
    return [xml_dict(e) for _, e in iterparse(io.BytesIO(text.encode()), tag='{*}MChemicalStruct')]


COORD_KEYS = ('@x2', '@y2', '@x3', '@y3', '@z3')


def needs_tolerance(d):
    """a coordinate with more than 14 digits: float() rounds, the model keeps the decimal value exactly"""
    aa = d.get('atomArray')
    if not isinstance(aa, dict):
        return False
    das = aa.get('atom', aa)
    if isinstance(das, dict):
        das = (das,)
    for a in das:
        if isinstance(a, dict):
            for k in COORD_KEYS:
                v = a.get(k)
                if isinstance(v, str) and any(sum(c.isdigit() for c in t) > 14 for t in v.split()):
                    return True
    return False


def parse_case(ck, cases, meta, d, label):
    """one reader case: the real parse_molecule and the model on the same dict"""
    C11 = _c11()
    from chython.files.MRVrw import parse_molecule
    if not all(_ascii(t) or t == '' for t in dict_texts(d)):
        ck.count('mrv:parse:skipped-non-ascii')
        return
    e, tg = C11.pyres(lambda: parse_molecule(copy.deepcopy(d)), cmparsed)
    tol = needs_tolerance(d)
    cases.append(f'mrv_parse_ok {b(tol)} {cmdict(d)} {e}')
    meta.append(('mrv parse', label, tg))
    ck.count(f'mrv:parse:{tg}')
    if tol:
        ck.count('mrv:parse:float-rounding-tolerance')
    ck.case(('mrv', label, repr(d)), nontrivial=True)


# ---------------------------------------------------------------------------------------------------------------
# damaged and hand-made dicts

def bonds_of(d):
    ba = d.get('bondArray')
    if isinstance(ba, dict) and 'bond' in ba:
        if isinstance(ba['bond'], dict):
            ba['bond'] = [ba['bond']]
        return ba['bond']
    return []


def atoms_of(d):
    aa = d.get('atomArray')
    if isinstance(aa, dict) and 'atom' in aa:
        if isinstance(aa['atom'], dict):
            aa['atom'] = [aa['atom']]
        return aa['atom']
    return []


def damage(rng, d):
    """a damaged deep copy of a written molecule dict, and what was done"""
    d = copy.deepcopy(d)
    atoms, bonds = atoms_of(d), bonds_of(d)
    ops = ['atom-del', 'atom-set', 'atom-add', 'top']
    if bonds:
        ops += ['bond-del', 'bond-set', 'bond-add', 'stereo'] * 2
    op = rng.choice(ops)
    if op == 'atom-del':
        a = rng.choice(atoms)
        k = rng.choice(list(a))
        del a[k]
        how = f'atom: delete {k}'
    elif op == 'atom-set':
        a = rng.choice(atoms)
        k = rng.choice(['@id', '@elementType', '@x2', '@y2', '@mrvMap', '@formalCharge', '@isotope', '@hydrogenCount', '@radical'])
        v = rng.choice(['a1', 'a2', 'x', '0', '-1', '+2', ' 3', '1_0', '1.5', '1e1', 'nan', '-inf', '.5', '5.', '--1', 'monovalent', 'C', '1 2', '12_', '0x1', '007'])
        a[k] = v
        how = f'atom: {k}={v!r}'
    elif op == 'atom-add':
        a = rng.choice(atoms)
        k, v = rng.choice([('@z3', '0.5'), ('@x3', '1.25'), ('@y3', '-2'), ('@mrvQueryProps', 'L,C,N:'), ('@mrvAlias', 'R'), ('@sgroupRef', 'sg1'),
                           ('@z3', 'zz'), ('@radical', '0'), ('@hydrogenCount', '2'), ('@isotope', '0'), ('@formalCharge', '0')])
        a[k] = v
        if k == '@z3' and rng.random() < .7:
            a['@x3'] = rng.choice(['1', '1.0e-1', 'q'])
            if rng.random() < .8:
                a['@y3'] = '2.5'
        how = f'atom: add {k}={v!r}'
    elif op == 'top':
        what = rng.choice(['no-atomArray', 'no-bondArray', 'atomArray-list', 'bondArray-list', 'empty-atomArray', 'empty-bondArray', 'title', 'no-title', 'one-atom-dict',
                           'dup-id'])
        if what == 'no-atomArray':
            d.pop('atomArray', None)
        elif what == 'no-bondArray':
            d.pop('bondArray', None)
        elif what == 'atomArray-list':
            d['atomArray'] = [d['atomArray'], d['atomArray']]
        elif what == 'bondArray-list':
            d['bondArray'] = [d['bondArray'], d['bondArray']]
        elif what == 'empty-atomArray':
            d['atomArray'] = {}
        elif what == 'empty-bondArray':
            d['bondArray'] = {}
        elif what == 'title':
            d['@title'] = 'another title'
        elif what == 'no-title':
            d.pop('@title', None)
        elif what == 'one-atom-dict':
            d['atomArray']['atom'] = atoms[0]
        elif what == 'dup-id' and len(atoms) > 1:
            atoms[-1]['@id'] = atoms[0]['@id']
        how = f'top: {what}'
    elif op == 'bond-del':
        x = rng.choice(bonds)
        k = rng.choice(list(x))
        del x[k]
        how = f'bond: delete {k}'
    elif op == 'bond-set':
        x = rng.choice(bonds)
        k = rng.choice(['@order', '@order', '@atomRefs2', '@atomRefs2', '@queryType'])
        if k == '@atomRefs2':
            ids = [a.get('@id', 'a1') for a in atoms] or ['a1']
            v = rng.choice([rng.choice(ids), ' '.join(rng.choice(ids) for _ in range(3)), rng.choice(ids) + ' a99999', 'zz ' + rng.choice(ids),
                            f' {rng.choice(ids)}\t{rng.choice(ids)} ', rng.choice(ids) + '  ' + rng.choice(ids), 'a1a2', '1 2'])
        else:
            v = rng.choice(['1', '2', '3', 'A', 'a', 'Any', 'any', 'ANY', '4', '8', '0', 'D', '1 ', 'aromatic', 'S', '12'])
        x[k] = v
        how = f'bond: {k}={v!r}'
    elif op == 'bond-add':
        x = rng.choice(bonds)
        k, v = rng.choice([('@queryType', 'Any'), ('@queryType', 'any'), ('@queryType', 'A'), ('@queryType', 'a'), ('@queryType', 'SD'), ('@queryType', '1'),
                           ('@convention', 'cxn:coord'), ('@id', 'b0')])
        x[k] = v
        if rng.random() < .3:
            x.pop('@order', None)
        how = f'bond: add {k}={v!r}'
    else:
        x = rng.choice(bonds)
        v = rng.choice([{'$': 'W'}, {'$': 'H'}, {'$': 'w'}, {'$': 'C'}, {'$': 'T'}, {'$': 'W H'}, {}, {'@convention': 'MDL', '@conventionValue': '1'},
                        {'@dictRef': 'cml:W', '$': 'W'}, [{'$': 'W'}, {'$': 'H'}], None])
        if v is None:
            x.pop('bondStereo', None)
        else:
            x['bondStereo'] = v
        how = f'bond: bondStereo={v!r}'
    return d, how


def array_form(d, rng=None):
    """the array form of a written molecule dict; rng: cut the lists to unequal lengths"""
    atoms = atoms_of(copy.deepcopy(d))
    aa = {'@atomID': ' '.join(a['@id'] for a in atoms), '@elementType': ' '.join(a['@elementType'] for a in atoms),
          '@x2': ' '.join(a['@x2'] for a in atoms), '@y2': ' '.join(a['@y2'] for a in atoms)}
    for k, dflt in (('@isotope', '0'), ('@formalCharge', '0'), ('@mrvMap', '0')):
        if any(k in a for a in atoms):
            aa[k] = ' '.join(a.get(k, dflt) for a in atoms)
    if any('@radical' in a for a in atoms):
        aa['@radical'] = ' '.join(a.get('@radical', '0') for a in atoms)
    if rng is not None:
        for k in list(aa):
            if rng.random() < .4:
                t = aa[k].split()
                aa[k] = ' '.join(t[:rng.randint(0, len(t))]) if rng.random() < .8 else ' '.join(t + t[:2])
                if not aa[k] and rng.random() < .7:
                    del aa[k]          # xml_dict would have dropped an empty attribute
    out = {k: v for k, v in d.items() if k != 'atomArray'}
    out['atomArray'] = aa
    out = copy.deepcopy(out)
    return out


def hand_made():
    a1 = {'@id': 'a1', '@elementType': 'C', '@x2': '0', '@y2': '0'}
    a2 = {'@id': 'a2', '@elementType': 'O', '@x2': '1.54', '@y2': '-3.08'}
    a3 = {'@id': 'a3', '@elementType': 'N', '@x2': '3.0800', '@y2': '0.0000', '@formalCharge': '1', '@isotope': '15', '@mrvMap': '7', '@hydrogenCount': '3'}
    b1 = {'@id': 'b1', '@atomRefs2': 'a1 a2', '@order': '1'}
    b2 = {'@id': 'b2', '@atomRefs2': 'a2 a3', '@order': '2'}

    def mol(atoms, bonds, **kw):
        d = dict(kw)
        d['atomArray'] = {'atom': atoms[0] if len(atoms) == 1 else list(atoms)} if atoms is not None else {}
        if bonds is not None:
            d['bondArray'] = {'bond': bonds[0] if len(bonds) == 1 else list(bonds)} if bonds else {}
        return d

    def arr(bonds=(b1,), **kw):
        aa = {'@atomID': 'a1 a2 a3', '@elementType': 'C O N', '@x2': '0 1.54 3.08', '@y2': '0 -1 0.5'}
        aa.update({'@' + k: v for k, v in kw.items() if v is not None})
        for k, v in kw.items():
            if v is None:
                aa.pop('@' + k, None)
        return {'atomArray': aa, 'bondArray': {'bond': list(bonds)} if bonds else {}}

    out = [
        ('plain', mol([a1, a2, a3], [b1, b2], **{'@title': 'three atoms', '@molID': 'm1'})),
        ('single atom, single bond dicts', mol([a1], [dict(b1, **{'@atomRefs2': 'a1 a1'})])),
        ('no bonds', mol([a1, a2], [])), ('no bondArray', mol([a1, a2], None)), ('no atomArray', {'bondArray': {}}), ('empty dict', {}),
        ('empty atomArray', mol(None, [b1])), ('empty atom list', {'atomArray': {'atom': []}, 'bondArray': {}}),
        ('atomArray list', {'atomArray': [{'atom': a1}, {'atom': a2}], 'bondArray': {}}),
        ('bondArray list', {'atomArray': {'atom': [a1, a2]}, 'bondArray': [{'bond': b1}, {'bond': b1}]}),
        ('no id', mol([{k: v for k, v in a1.items() if k != '@id'}, a2], [])), ('no elementType', mol([{k: v for k, v in a1.items() if k != '@elementType'}], [])),
        ('no x2', mol([{k: v for k, v in a1.items() if k != '@x2'}], [])), ('no y2', mol([{k: v for k, v in a1.items() if k != '@y2'}], [])),
        ('bad x2', mol([dict(a1, **{'@x2': 'x'})], [])), ('bad y2', mol([dict(a1, **{'@y2': '1,5'})], [])), ('exp x2', mol([dict(a1, **{'@x2': '1.5e1', '@y2': '-.5E-2'})], [])),
        ('inf nan', mol([dict(a1, **{'@x2': 'inf', '@y2': 'nan'}), dict(a2, **{'@x2': '-Infinity', '@y2': '+1_0.5'})], [])),
        ('3D', mol([dict(a1, **{'@x3': '1.5', '@y3': '-2.25', '@z3': '0.125'}), dict(a2, **{'@x3': '0', '@y3': '0', '@z3': '0'})], [b1])),
        ('3D no x3', mol([dict(a1, **{'@y3': '-2.25', '@z3': '0.125'})], [])), ('3D no y3', mol([dict(a1, **{'@x3': '-2.25', '@z3': '0.125'})], [])),
        ('3D bad z3', mol([dict(a1, **{'@x3': '1', '@y3': '2', '@z3': 'z'})], [])), ('3D bad x3 and no y3', mol([dict(a1, **{'@x3': 'q', '@z3': '1'})], [])),
        ('3D without x2', mol([{'@id': 'a1', '@elementType': 'C', '@x3': '1', '@y3': '2', '@z3': '3'}], [])),
        ('query props', mol([dict(a1, **{'@mrvQueryProps': 'A:'}), a2], [b1])), ('query props and bad hydrogens', mol([dict(a1, **{'@mrvQueryProps': 'A:', '@hydrogenCount': 'x'})], [])),
        ('query props and bad x2', mol([dict(a1, **{'@mrvQueryProps': 'A:', '@x2': 'x'})], [])),
        ('hydrogenCount', mol([dict(a1, **{'@hydrogenCount': '4'}), dict(a2, **{'@hydrogenCount': '0'})], [b1])), ('bad hydrogenCount', mol([dict(a1, **{'@hydrogenCount': 'four'})], [])),
        ('charge text', mol([dict(a1, **{'@formalCharge': 'plus'})], [])), ('charge +1', mol([dict(a1, **{'@formalCharge': '+1'})], [])), ('charge float', mol([dict(a1, **{'@formalCharge': '1.0'})], [])),
        ('isotope text', mol([dict(a1, **{'@isotope': 'C13'})], [])), ('isotope 0', mol([dict(a1, **{'@isotope': '0'})], [])), ('isotope underscore', mol([dict(a1, **{'@isotope': '1_3'})], [])),
        ('map text', mol([dict(a1, **{'@mrvMap': 'm'})], [])), ('map negative', mol([dict(a1, **{'@mrvMap': '-3'})], [])),
        ('radical values', mol([dict(a1, **{'@radical': 'monovalent'}), dict(a2, **{'@radical': '0'}), dict(a3, **{'@radical': 'divalent1'})], [b1])),
        ('duplicate ids', mol([a1, dict(a2, **{'@id': 'a1'}), a3], [dict(b1, **{'@atomRefs2': 'a1 a3'})])),
        ('unknown order', mol([a1, a2], [dict(b1, **{'@order': '4'})])), ('order 8 text', mol([a1, a2], [dict(b1, **{'@order': '8'})])), ('no order', mol([a1, a2], [{'@atomRefs2': 'a1 a2'}])),
        ('order A', mol([a1, a2], [dict(b1, **{'@order': 'A'})])), ('order a', mol([a1, a2], [dict(b1, **{'@order': 'a'})])), ('order Any', mol([a1, a2], [dict(b1, **{'@order': 'Any'})])),
        ('no order but queryType', mol([a1, a2], [{'@atomRefs2': 'a1 a2', '@queryType': 'Any'}])),
        ('no atomRefs2', mol([a1, a2], [{'@order': '1'}])), ('no atomRefs2 and unknown order', mol([a1, a2], [{'@order': 'x'}])),
        ('refs one token', mol([a1, a2], [dict(b1, **{'@atomRefs2': 'a1'})])), ('refs three tokens', mol([a1, a2], [dict(b1, **{'@atomRefs2': 'a1 a2 a1'})])),
        ('refs tabs', mol([a1, a2], [dict(b1, **{'@atomRefs2': 'a2\t\n a1'})])), ('refs unknown first', mol([a1, a2], [dict(b1, **{'@atomRefs2': 'a9 a1'})])),
        ('refs unknown second', mol([a1, a2], [dict(b1, **{'@atomRefs2': 'a1 a9'})])), ('refs unknown, one token', mol([a1, a2], [dict(b1, **{'@atomRefs2': 'a9'})])),
        ('unknown order and refs one token', mol([a1, a2], [dict(b1, **{'@order': 'x', '@atomRefs2': 'a9'})])),
        ('stereo unknown atom', mol([a1, a2], [dict(b1, **{'@atomRefs2': 'a9 a1'}, bondStereo={'$': 'W'})])),
        ('stereo other text then unknown atom', mol([a1, a2], [dict(b1, **{'@atomRefs2': 'a1 a9'}, bondStereo={'$': 'C'})])),
        ('second bond fails', mol([a1, a2, a3], [dict(b1, bondStereo={'$': 'H'}), dict(b2, **{'@order': 'q'})])),
    ]
    for qt in ('Any', 'any', 'A', 'a', 'ANY', 'SD', '1', '', ' Any'):
        if qt:
            out.append((f'queryType {qt!r}', mol([a1, a2], [dict(b1, **{'@queryType': qt})])))
    for st in ({'$': 'W'}, {'$': 'H'}, {'$': 'w'}, {'$': 'T'}, {'$': 'C'}, {}, {'@convention': 'MDL', '@conventionValue': '6'}, {'@dictRef': 'cml:H', '$': 'H'},
               [{'$': 'W'}, {'$': 'W'}], {'$': 'W H'}):
        out.append((f'bondStereo {st!r}', mol([a1, a2, a3], [dict(b1, bondStereo=st), b2])))
    out += [
        ('array', arr()), ('array all', arr(isotope='0 18 0', formalCharge='0 -1 1', mrvMap='1 0 3', radical='0 monovalent 0')),
        ('array stereo', arr(bonds=(dict(b1, bondStereo={'$': 'H'}), b2))),
        ('array short elementType', arr(elementType='C O')), ('array short atomID', arr(atomID='a1')), ('array long atomID', arr(atomID='a1 a2 a3 a4 a5')),
        ('array short x2', arr(x2='0 1')), ('array short y2', arr(y2='0')), ('array long x2', arr(x2='0 1 2 3 4')), ('array no x2', arr(x2=None)), ('array no y2', arr(y2=None)),
        ('array bad x2', arr(x2='0 q 2')), ('array bad y2 beyond zip', arr(x2='0 1', y2='0 1 q')), ('array bad y2', arr(y2='0 1 q')),
        ('array 3D', arr(x3='0 1 2', y3='0.5 1.5 2.5', z3='-1 -2 -3')), ('array 3D short z3', arr(x3='0 1 2', y3='0.5 1.5 2.5', z3='-1')), ('array 3D no x3', arr(y3='0.5 1.5 2.5', z3='-1 -2 -3')),
        ('array 3D no y3', arr(x3='0.5 1.5 2.5', z3='-1 -2 -3')), ('array 3D bad', arr(x3='0 1 2', y3='0.5 x 2.5', z3='-1 -2 -3')), ('array 3D without x2', arr(x2=None, y2=None, x3='0 1 2', y3='0 1 2', z3='0 0 1')),
        ('array isotope short', arr(isotope='13')), ('array isotope long', arr(isotope='0 0 15 2 2')), ('array isotope bad', arr(isotope='0 x')), ('array isotope 00', arr(isotope='00 0 +0')),
        ('array charge', arr(formalCharge='-1 0 +2')), ('array charge bad', arr(formalCharge='0 0 1.5')), ('array map', arr(mrvMap='3 2 1')), ('array map bad', arr(mrvMap='3 m 1')),
        ('array radical', arr(radical='0 0 divalent')), ('array radical short', arr(radical='monovalent')),
        ('array query', arr(mrvQueryProps='0 L 0')), ('array query and bad isotope', arr(mrvQueryProps='0 L 0', isotope='x')), ('array query and no x2', arr(mrvQueryProps='0 L 0', x2=None)),
        ('array duplicate ids', arr(atomID='a1 a2 a1', bonds=(dict(b1, **{'@atomRefs2': 'a1 a2'}),))), ('array no atomID', arr(atomID=None)), ('array no elementType', arr(elementType=None)),
        ('array hydrogenCount ignored', arr(hydrogenCount='1 2 3')), ('array unknown bond atom', arr(bonds=(dict(b1, **{'@atomRefs2': 'a1 a4'}),))),
        ('array empty strings', {'atomArray': {'@atomID': '', '@elementType': ''}, 'bondArray': {}}), ('array blank ids', {'atomArray': {'@atomID': '  ', '@elementType': 'C'}, 'bondArray': {}}),
        ('array no bondArray', {'atomArray': {'@atomID': 'a1', '@elementType': 'C', '@x2': '0', '@y2': '0'}}),
    ]
    return out


# ---------------------------------------------------------------------------------------------------------------
# the XML layer alone (lxml + xml_dict against scan_attrs + xml_attrs / xml_text) on well-formed start tags and text nodes

def corr_xml_layer(ck, cases, meta):
    C11 = _c11()
    from lxml.etree import fromstring
    from chython.files.MRVrw import xml_dict, bond_map
    rng = random.Random(f'{ck.seed}:mrv-xml')
    names = ['id', 'elementType', 'x2', 'y2', 'mrvMap', 'formalCharge', 'radical', 'isotope', 'hydrogenCount', 'atomRefs2', 'order', 'queryType', 'title', 'a', 'B_1', 'x.y', 'k-1']
    tags = [f' id="b1" atomRefs2="a1 a2" order="{v}"' for k, v in bond_map.items() if isinstance(k, int)]
    tags += ['', ' a=""', ' a=" "', ' a="  x  "', ' a="x y"', ' a="x" b=""  '.rstrip(), ' title=" padded  title " id="m1"', " a=\"it's\"", ' a="=" b="a=b"', ' a="/>"', ' a="1" b="2" c="3"']
    for _ in range(40 if ck.tier == 'quick' else 400):
        ks = rng.sample(names, rng.randint(1, 5))
        tags.append(''.join(f' {k}="{"".join(rng.choice("a1 -.+=:;,") for _ in range(rng.randint(0, 6)))}"' for k in ks))
    for t in tags:
        d = xml_dict(fromstring(f'<atom{t}/>'))
        e = {k: v for k, v in d.items() if k.startswith('@')}
        assert len(e) == len(d), d
        cases.append(f'mrv_tag_ok {C11.cstr(t)} (Some {cattrs(e)})')
        meta.append(('mrv tag', t))
        ck.count('mrv:xml:tag')
        ck.case(('mrv-tag', t), nontrivial=True)
    for t in ['W', 'H', ' W ', '\n  H\n', '', ' ', ' \t\n', 'W H', ' a  b ', 'x\ty', ' \n\n ', 'C']:
        d = xml_dict(fromstring(f'<bondStereo>{t}</bondStereo>'))
        assert set(d) <= {'$'}, d
        cases.append(f'mrv_textnode_ok {C11.cstr(t)} {opt(d.get("$"), C11.cstr)}')
        meta.append(('mrv text node', t))
        ck.count('mrv:xml:text')
        ck.case(('mrv-textnode', t), nontrivial=True)


# ---------------------------------------------------------------------------------------------------------------
# the cases

def corr_mrv(ck, cases, meta, pool):
    C11 = _c11()
    import common
    from chython.files.MRVrw import parse_molecule
    rng = random.Random(f'{ck.seed}:mrv')
    n_damage = 3 if ck.tier == 'quick' else 20
    for i, (m0, smi, tag) in enumerate(pool):
        m = m0.copy()
        m.meta.clear()
        tag = list(tag)
        if i % 4 == 1:           # some hydrogen counts unknown
            for n, a in m.atoms():
                if rng.random() < .4:
                    a._implicit_hydrogens = None
            tag.append('hydrogens-unknown')
        if i % 3 == 1:
            m.meta.update({'key': 'value', 'second key': ' two words \n and a line ', 'n': '1.5'} if i % 2 else {'ID': 'x<y & z>0'})
            tag.append('meta')
        if not (_ascii(m.name or 'x') and all(_ascii(str(k)) and _ascii(str(v)) for k, v in m.meta.items())):
            ck.count('mrv:writer:skipped-non-ascii')
            continue
        C11.describe(ck, m, tag, 'mrv')
        if any(a.implicit_hydrogens is None for _, a in m.atoms()):
            ck.count('mrv:with-hydrogens-None')
        if any(bd.order == 8 for *_, bd in m.bonds()):
            ck.count('mrv:order8')
        for mapping in (True, False):
            wm, hs = cwmol_mrv(m)
            # (i) the text
            try:
                real = mrv_text(m, mapping)
                assert real.startswith('<cml>\n') and real.endswith('</cml>\n'), real[:80]
                record = real[len('<cml>\n'):-len('</cml>\n')]
                assert record.count('<atomArray>') == 1 and record.index('<atomArray>') < record.index('</bondArray>')
                e, tg = f'(Ok {C11.cstr(record)})', 'Ok'
            except AssertionError:
                raise
            except Exception as ex:  # noqa
                e, tg = f'(Err {C11.exn_name(ex)})', 'Err ' + C11.exn_name(ex)
            cases.append(f'mrv_text_ok {b(mapping)} {wm} {hs} {C11.cmeta(m.meta)} {e}')
            meta.append(('mrv text', smi, tag, mapping))
            ck.count(f'mrv:text:{tg}')
            ck.case(('mrv-writer', smi, tuple(tag), mapping), nontrivial=True)
            if tg != 'Ok':
                continue
            # (ii) what lxml + xml_dict hand to parse_molecule
            try:
                (top,) = mrv_dicts(real)
                d = top['molecule']
            except Exception as ex:  # noqa  (markup in a name: the known finding mrv-write-unescaped-markup, not this step's business)
                ck.count(f'mrv:dict:unparsable:{type(ex).__name__}')
                continue
            cases.append(f'mrv_dict_ok {b(mapping)} {wm} {hs} {cmdict(d)}')
            meta.append(('mrv dict', smi, tag, mapping))
            ck.count('mrv:dict')
            # (iii) the reader on the written dict: against the model on the same dict, and against the model's whole chain
            parse_case(ck, cases, meta, d, (smi, 'as written', mapping))
            e, tg = C11.pyres(lambda: parse_molecule(copy.deepcopy(d)), cmparsed)
            cases.append(f'mrv_chain_ok {b(mapping)} {wm} {hs} {e}')
            meta.append(('mrv chain', smi, tag, mapping))
            ck.count(f'mrv:chain:{tg}')
            if mapping == (i % 2 == 0):
                for _ in range(n_damage):
                    dd, how = damage(rng, d)
                    parse_case(ck, cases, meta, dd, (smi, how))
                if atoms_of(copy.deepcopy(d)):
                    parse_case(ck, cases, meta, array_form(d), (smi, 'array form'))
                    for _ in range(n_damage):
                        parse_case(ck, cases, meta, array_form(d, rng), (smi, 'array form, cut'))
    for label, d in hand_made():
        parse_case(ck, cases, meta, d, ('hand made', label))
    corr_xml_layer(ck, cases, meta)
    # the repository's own MRV test files
    tdir = os.path.join(common.REPO, 'test')
    for f in sorted(os.listdir(tdir)):
        if not f.endswith('.mrv'):
            continue
        try:
            tops = mrv_dicts(open(os.path.join(tdir, f), encoding='utf-8').read())
        except Exception as ex:  # noqa
            ck.count(f'mrv:testfile:unparsable:{type(ex).__name__}')
            continue
        for k, top in enumerate(tops):
            mols = []
            if isinstance(top.get('molecule'), dict):
                mols.append(top['molecule'])
            elif isinstance(top.get('reaction'), dict):
                for t in ('reactantList', 'productList', 'agentList'):
                    x = top['reaction'].get(t, {}).get('molecule', ())
                    mols += [x] if isinstance(x, dict) else list(x)
            for d in mols:
                parse_case(ck, cases, meta, d, ('test file', f, k))
                ck.count(f'mrv:testfile:{f}')
                for _ in range(n_damage):
                    dd, how = damage(rng, d)
                    parse_case(ck, cases, meta, dd, ('test file', f, k, how))
