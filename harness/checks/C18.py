"""C18 periodic table data: finite, fully proved over regenerated tables; the real classes are also swept
exhaustively in Python (independent of the translator) so that a broken obligation comes with a concrete element."""
import json
import re

import boot  # noqa
import common

ORACLE_SYMBOLS = ('H He Li Be B C N O F Ne Na Mg Al Si P S Cl Ar K Ca Sc Ti V Cr Mn Fe Co Ni Cu Zn Ga Ge As Se Br Kr '
                  'Rb Sr Y Zr Nb Mo Tc Ru Rh Pd Ag Cd In Sn Sb Te I Xe Cs Ba La Ce Pr Nd Pm Sm Eu Gd Tb Dy Ho Er Tm Yb '
                  'Lu Hf Ta W Re Os Ir Pt Au Hg Tl Pb Bi Po At Rn Fr Ra Ac Th Pa U Np Pu Am Cm Bk Cf Es Fm Md No Lr Rf '
                  'Db Sg Bh Hs Mt Ds Rg Cn Nh Fl Mc Lv Ts Og').split()


def pyx_table(path, name):
    src = open(path).read()
    m = re.search(rf'{name}\[:\] = \[([^\]]*)\]', src)
    return [int(x) for x in m.group(1).replace('\n', ' ').split(',')]


def search(ck):
    """exhaustive sweep of the real classes: 118 elements x tabulated isotopes x charges x radical"""
    import chython.periodictable as pt
    from chython.periodictable import Element
    pk = pyx_table(common.REPO + '/chython/containers/_pack_v2.pyx', 'common_isotopes')
    up = pyx_table(common.REPO + '/chython/containers/_unpack_v0v2.pyx', 'common_isotopes')
    src = open(common.REPO + '/chython/containers/_unpack_v0v2.pyx').read()
    uel = [x.strip() for x in re.search(r'^elements = \[([^\]]*)\]', src, re.M).group(1).replace('\n', ' ').split(',')]
    if uel != ['None'] + ORACLE_SYMBOLS:
        bad = next((i for i, (a, b) in enumerate(zip(uel, ['None'] + ORACLE_SYMBOLS)) if a != b), len(uel))
        ck.counterexample(f'unpack-elements:{bad}', f'unpacker element list differs from the symbol table at index {bad}',
                          {'index': bad}, uel[bad] if bad < len(uel) else None, (['None'] + ORACLE_SYMBOLS)[bad], 'standard table')
    for n, sym in enumerate(ORACLE_SYMBOLS, 1):
        def bad(key, what, observed, expected):
            ck.counterexample(f'{key}:{sym}', f'{sym}: {what}', {'element': sym, 'number': n}, observed, expected,
                              'exhaustive sweep of the element classes',
                              replay_py=f'from chython.periodictable import Element; c=Element.from_symbol({sym!r}); print(c().atomic_number, c().isotopes_distribution, c().isotopes_masses, c().mdl_isotope)')
        try:
            c = Element.from_atomic_number(n)
        except Exception as e:
            bad('from_number', f'from_atomic_number({n}) raises', type(e).__name__, sym)
            continue
        if c.__name__ != sym:
            bad('from_number', f'from_atomic_number({n}) gives {c.__name__}', c.__name__, sym)
        try:
            c2 = Element.from_symbol(sym)
        except Exception as e:
            bad('from_symbol', f'from_symbol raises', type(e).__name__, n)
            continue
        e = c2()
        if e.atomic_number != n:
            bad('from_symbol', f'from_symbol gives number {e.atomic_number}', e.atomic_number, n)
        dist, mass = e.isotopes_distribution, e.isotopes_masses
        if set(dist) != set(mass):
            bad('isotope-keys', 'abundance and mass tables have different keys', [sorted(dist), sorted(mass)], 'same keys')
        if e.mdl_isotope not in dist:
            bad('mdl_isotope', f'mdl_isotope {e.mdl_isotope} is not among the isotope keys', e.mdl_isotope, sorted(dist))
        try:
            m = e.atomic_mass
            if not m > 0:
                bad('mass', 'average mass not positive', m, '>0')
        except Exception as ex:
            bad('mass', 'atomic_mass raises', type(ex).__name__, 'a number')
        if pk[n] != e.mdl_isotope - 16 or up[n] != pk[n]:
            bad('pyx-isotope-table', '.pyx common_isotopes entry differs from mdl_isotope - 16', [pk[n], up[n]], e.mdl_isotope - 16)
        for iso in dist:
            ck.case(('iso', sym, iso))
            try:
                a = c2(iso)
                a.atomic_mass
            except Exception as ex:
                bad(f'isotope{iso}', f'isotope {iso} not constructible / no mass', type(ex).__name__, 'ok')
                continue
            off = iso - pk[n]
            if not (1 <= off <= 31) or up[n] + off != iso:
                bad(f'pack-isotope{iso}', f'isotope {iso} does not fit the 5-bit pack field', off, '1..31')
            if not (-8 <= iso - e.mdl_isotope <= 8):
                bad(f'matcher-isotope{iso}', f'isotope {iso} outside the matcher isotope bits', iso - e.mdl_isotope, '-8..8')
        for ch in range(-4, 5):
            for rad in (False, True):
                ck.case(('cr', sym, ch, rad))
                try:
                    a = c2(charge=ch, is_radical=rad)
                    if a.charge != ch or a.is_radical != rad:
                        bad('charge', f'charge/radical not stored', [a.charge, a.is_radical], [ch, rad])
                except Exception as ex:
                    bad('charge', f'charge {ch} rejected', type(ex).__name__, 'accepted')
        try:
            rules = e._compiled_valence_rules
            hmax = max((h for rr in rules.values() for *_, h in rr), default=0)
            if hmax > 4:
                bad('hydrogens', f'valence table yields {hmax} implicit hydrogens (> 4, matcher field)', hmax, '<=4')
            e._compiled_saturation_rules
        except Exception as ex:
            bad('valence-compile', 'valence tables do not compile', type(ex).__name__, 'compiles')
        for pref, base in (('Dynamic', pt.DynamicElement), ('Query', pt.QueryElement)):
            v = getattr(pt, pref + sym, None)
            if v is None or not issubclass(v, base):
                bad('variant', f'{pref}{sym} missing', None, 'class')
            else:
                inst = v() if pref == 'Query' else None
                num = v.atomic_number.fget(None)
                if num != n:
                    bad('variant', f'{pref}{sym} has number {num}', num, n)
    ck.sample({'element': 'Br', 'mdl_isotope': 80, 'isotopes': [79, 81], 'pack offsets': [79 - pk[35], 81 - pk[35]]})
    ck.sample({'element': 'Hs', 'isotopes': sorted(Element.from_symbol('Hs')().isotopes_distribution)})


def search_construction_and_rules(ck):
    """oracles on the live classes that do not use the model: (a) every tabulated isotope is reachable through delta_isotope (counted
    from mdl_isotope, as the MDL readers do) and through the positional argument, an untabulated neighbour is rejected either way;
    (b) the compiled valence rules mean what the table documentation says: the first common valence v of an element with implicit
    hydrogens gives h hydrogens at bond-order sum v - h (h = 0..v), every other common valence 0 hydrogens; an exception record
    (charge, radical, implicit, environment) gives h hydrogens at sum(environment orders) + implicit - h for h = 0..implicit with
    exactly that environment; nothing else is in the table (rule counts per key recomputed from the literal tables)"""
    from collections import Counter
    from chython.periodictable import Element
    numbers = {sym: n for n, sym in enumerate(ORACLE_SYMBOLS, 1)}
    n_bad = 0
    for n, sym in enumerate(ORACLE_SYMBOLS, 1):
        cls = Element.from_symbol(sym)
        inst = cls()
        keys = sorted(inst.isotopes_distribution)
        mdl = inst.mdl_isotope

        def bad(key, what, inp, observed, expected, replay):
            nonlocal n_bad
            n_bad += 1
            if n_bad <= 12:
                ck.counterexample(f'{key}:{sym}', f'{sym}: {what}', dict({'element': sym}, **inp), observed, expected,
                                  'documented meaning of the element tables, recomputed from the literals', replay_py=replay)
        # (a) construction through delta_isotope
        for k in keys + [keys[0] - 1, keys[-1] + 1]:
            ck.case(('delta', sym, k))
            want = k if k in keys else 'ValueError'
            for how, mk in (('delta_isotope', lambda: cls(delta_isotope=k - mdl)), ('isotope', lambda: cls(k))):
                try:
                    got = mk().isotope
                except Exception as e:
                    got = type(e).__name__
                if got != want:
                    bad(f'construct-{how}:{k}', f'{sym}({how}={k - mdl if how == "delta_isotope" else k}) gives isotope {got}, mdl_isotope is {mdl}',
                        {'isotope': k, 'via': how}, got, want,
                        f'from chython.periodictable import Element; c=Element.from_symbol({sym!r}); print(c(delta_isotope={k - mdl}).isotope, c().mdl_isotope)')
        # (b) meaning of the rule table
        try:
            cv, exc = inst._common_valences, inst._valences_exceptions
            expected = Counter()        # (charge, radical, bond-order sum, hydrogens, environment) -> multiplicity
            if cv[0] and n != 1:
                for h in range(cv[0] + 1):
                    expected[(0, False, cv[0] - h, h, ())] += 1
                rest = cv[1:]
            else:
                rest = cv
            for v in rest:
                expected[(0, False, v, 0, ())] += 1
            for c, r, imp, env in exc:
                e_env = tuple(sorted(Counter((o, numbers[s]) for o, s in env).items()))
                tot = sum(o for o, _ in env)
                for h in range(imp + 1):
                    expected[(c, r, tot + imp - h, h, e_env)] += 1
            got = Counter()
            states = sorted({(c, r) for c, r, *_ in expected})
            sums = sorted({v for _, _, v, *_ in expected})
            for c, r in states:
                a = cls(charge=c, is_radical=r)
                for v in range(0, max(sums) + 2):
                    try:
                        rules = a.valence_rules(v)
                    except Exception as e:
                        if type(e).__name__ != 'ValenceError':
                            raise
                        rules = []
                    for st, d, h in rules:
                        if set(d) != set(st):
                            bad(f'rule-set:{c}:{r}:{v}', 'a compiled rule whose neighbour set is not the key set of its neighbour dict',
                                {'charge': c, 'radical': r, 'bond order sum': v}, [sorted(st), sorted(d)], 'equal', None)
                        got[(c, r, v, h, tuple(sorted(d.items())))] += 1
            ck.case(('rule-meaning', sym))
            if got != expected:
                miss = sorted((expected - got).items())[:3]
                extra = sorted((got - expected).items())[:3]
                k0 = (miss or extra)[0][0]
                bad('rule-meaning', f'valence_rules of {sym} (charge {k0[0]}, radical {k0[1]}) at bond-order sum {k0[2]}: the rule giving {k0[3]} hydrogens with '
                    f'environment {list(k0[4])} is {"missing" if miss else "not justified by the tables"}',
                    {'charge': k0[0], 'radical': k0[1], 'bond order sum': k0[2]}, {'missing': miss, 'unjustified': extra}, 'exactly the rules the tables document',
                    f'from chython.periodictable import Element; a=Element.from_symbol({sym!r})(charge={k0[0]}, is_radical={k0[1]}); print(a._common_valences, a._valences_exceptions); print(a.valence_rules({k0[2]}))')
        except Exception as e:
            if type(e).__name__ in ('AssertionError',):
                raise
            # compile failures are reported by search(); nothing to compare here
    ck.count('construction through delta_isotope / isotope (tabulated + 2 neighbours) and rule-table meaning (118 elements)')


LOOKUP_PROBE = r"""
import boot, sys, json
from chython.periodictable import Element
import chython.periodictable as pt
mode = sys.argv[1]
SY = sys.argv[2].split()
out = []
try:
    if mode == 'subclass-number':      # first number lookup of the process goes through a concrete element class
        first = pt.C.from_atomic_number(8).__name__
    elif mode == 'instance-number':    # ... through an atom instance
        first = pt.N().from_atomic_number(8).__name__
    elif mode == 'subclass-symbol':
        first = pt.C.from_symbol('O').__name__
    elif mode == 'query-number':
        first = pt.QueryElement.from_atomic_number(8).__name__
    else:
        first = Element.from_atomic_number(8).__name__
except Exception as e:
    first = 'raises ' + type(e).__name__
out.append(['first', first])
for n, sym in enumerate(SY, 1):
    for fn, arg, exp in ((Element.from_atomic_number, n, sym), (Element.from_symbol, sym, sym)):
        try:
            got = fn(arg).__name__
        except Exception as e:
            got = 'raises ' + type(e).__name__
        if got != exp:
            out.append([fn.__name__, arg, got, exp])
print(json.dumps(out))
"""


def search_lookup_entry_points(ck):
    """the lookups are class methods with a process-wide cache: every entry point (base class, concrete element class, atom
    instance, query class) must leave all 118 lookups intact, whichever is used FIRST in a fresh interpreter"""
    import os
    import subprocess
    import sys
    env = dict(os.environ)
    for mode in ('base-number', 'subclass-number', 'instance-number', 'subclass-symbol', 'query-number'):
        r = subprocess.run([sys.executable, '-c', LOOKUP_PROBE, mode, ' '.join(ORACLE_SYMBOLS)], env=env, capture_output=True, text=True, timeout=300)
        ck.case(('lookup-entry', mode))
        ck.count('lookup entry points probed in a fresh interpreter')
        try:
            res = json.loads(r.stdout.strip().split('\n')[-1])
        except Exception:
            ck.counterexample(f'lookup-entry:{mode}', f'lookup probe ({mode} first) crashed', {'first call': mode}, (r.stdout + r.stderr)[-400:], 'a result',
                              'fresh interpreter probe')
            continue
        first = res[0][1]
        want = 'QueryO' if mode == 'query-number' else 'O'
        bad = res[1:]
        if first != want or bad:
            ck.counterexample(f'lookup-entry:{mode}', f'after a first lookup through {mode.split("-")[0]} the symbol / number lookups are no longer mutually inverse '
                              f'and standard ({len(bad)} of 236 lookups wrong)', {'first call': mode}, {'first': first, 'wrong': bad[:5]}, {'first': want, 'wrong': []},
                              'standard table, fresh interpreter',
                              replay_py="import chython.periodictable as pt\nfrom chython.periodictable import Element\nprint(pt.C.from_atomic_number(8)); print(Element.from_atomic_number(6))")


def search_pack_states(ck):
    """every tabulated (element, isotope), every charge -4..4 with radical flag, every hydrogen count 0..4/None survives the real
    pack -> unpack (the codecs run through the fail-closed .pyx transpiler): representability in the pack format, end to end"""
    import pyxinject
    try:
        pyxinject.inject(('pack', 'unpack'))
    except Exception as e:
        ck.unchecked('pyx transpiler (pack/unpack) for the representability sweep', f'{type(e).__name__}: {e}')
        return
    from chython import MoleculeContainer
    from chython.periodictable import Element
    n_bad = 0
    for n, sym in enumerate(ORACLE_SYMBOLS, 1):
        cls = Element.from_symbol(sym)
        states = [(iso, 0, False, 0) for iso in cls().isotopes_distribution]
        states += [(None, ch, rad, 0) for ch in range(-4, 5) for rad in (False, True)]
        states += [(None, 0, False, h) for h in (0, 1, 2, 3, 4, None)]
        # the fields share bytes of the atom block: every tabulated isotope also combined with the radical flag and the extreme /
        # a middle charge and hydrogen count
        states += [(iso, ch, rad, h) for iso in cls().isotopes_distribution for rad in (False, True)
                   for ch, h in ((0, 0), (-4, 4), (4, None), (1, 2)) if (ch, rad, h) != (0, False, 0)]
        for iso, ch, rad, h in states:
            m = MoleculeContainer()
            a = cls(iso, charge=ch, is_radical=rad)
            m.add_atom(a, 1, _skip_calculation=True)
            m._atoms[1]._implicit_hydrogens = h
            ck.case(('pack-state', sym, iso, ch, rad, h))
            try:
                u = MoleculeContainer.unpack(m.pack(), skip_labels_calculation=True)
                b = u._atoms[1]
                got = (b.atomic_symbol, b.isotope, b.charge, b.is_radical, b.implicit_hydrogens)
            except Exception as e:
                got = f'raises {type(e).__name__}: {e}'
            exp = (sym, iso, ch, rad, h)
            if got != exp and n_bad < 12:
                n_bad += 1
                ck.counterexample(f'pack-state:{sym}:{iso}:{ch}:{rad}:{h}', f'{sym}: the state (isotope {iso}, charge {ch}, radical {rad}, hydrogens {h}) does not survive pack -> unpack',
                                  {'element': sym, 'isotope': iso, 'charge': ch, 'radical': rad, 'hydrogens': h}, got, exp, 'pack/unpack round trip of a one-atom molecule',
                                  replay_py=f"import pyxinject; pyxinject.inject(('pack','unpack'))\nfrom chython import MoleculeContainer\nfrom chython.periodictable import Element\n"
                                            f"m=MoleculeContainer(); m.add_atom(Element.from_symbol({sym!r})({iso!r}, charge={ch}, is_radical={rad}), 1, _skip_calculation=True); m._atoms[1]._implicit_hydrogens={h!r}\n"
                                            f"u=MoleculeContainer.unpack(m.pack(), skip_labels_calculation=True); a=u._atoms[1]; print(a.atomic_symbol, a.isotope, a.charge, a.is_radical, a.implicit_hydrogens)")
    ck.count('pack-state sweep (elements x isotopes, charges x radical, hydrogens)')


def search_variant_symbols(ck):
    """query and dynamic variants: class lookup by number and by symbol, construction from an atom, and the symbol / number the
    INSTANCE reports, for all 118 elements (the symbol of a variant is derived from its class name)"""
    import chython.periodictable as pt
    from chython.periodictable import Element, DynamicElement, QueryElement
    for n, sym in enumerate(ORACLE_SYMBOLS, 1):
        ck.case(('variant-symbol', sym))
        atom = None
        probes = []
        try:
            atom = Element.from_symbol(sym)()
            probes.append(('Element instance', atom))
        except Exception:
            pass
        for pref, base in (('Dynamic', DynamicElement), ('Query', QueryElement)):
            for how, get in (('from_atomic_number', lambda: base.from_atomic_number(n)), ('from_symbol', lambda: base.from_symbol(sym)),
                             ('module attribute', lambda: getattr(pt, pref + sym))):
                try:
                    c = get()
                    inst = c(None) if pref == 'Dynamic' else c()
                    probes.append((f'{pref}Element.{how}', inst))
                except Exception as e:
                    probes.append((f'{pref}Element.{how}', e))
            if atom is not None:
                try:
                    probes.append((f'{pref}Element.from_atom', base.from_atom(atom)))
                except Exception as e:
                    probes.append((f'{pref}Element.from_atom', e))
        for how, inst in probes:
            if isinstance(inst, Exception):
                got = f'raises {type(inst).__name__}'
            else:
                try:
                    got = [inst.atomic_symbol, inst.atomic_number]
                except Exception as e:
                    got = f'raises {type(e).__name__}'
            if got != [sym, n]:
                ck.counterexample(f'variant-symbol:{how}:{sym}', f'{sym}: the variant obtained through {how} does not report symbol {sym} / number {n}',
                                  {'element': sym, 'number': n, 'via': how}, got, [sym, n], 'standard table',
                                  replay_py=f"from chython.periodictable import Element, DynamicElement, QueryElement\n"
                                            f"print(DynamicElement.from_atomic_number({n})(None).atomic_symbol, QueryElement.from_atomic_number({n})().atomic_symbol, "
                                            f"DynamicElement.from_atom(Element.from_symbol({sym!r})()).atomic_symbol)")
    ck.count('variant symbol sweep (118 elements x 9 ways to obtain a variant)')


def search_matcher_states(ck):
    """every tabulated (element, isotope), every charge -4..4 x radical x hydrogen count 0..4 is representable in the matcher bit
    layout, end to end: a one-atom molecule in that state must be found by queries that do not constrain the state (element,
    any-element and list query atoms), by the query that spells the state out, and must NOT be found by a query that differs in one
    field; the accelerated path (transpiled _isomorphism.pyx over the encoders of isomorphism.py) and the reference matcher must agree"""
    import iso_pyx
    try:
        iso_pyx.inject()
    except Exception as e:
        ck.unchecked('pyx transpiler (_isomorphism) for the matcher representability sweep', f'{type(e).__name__}: {e}')
        return
    from chython import MoleculeContainer, QueryContainer
    from chython.periodictable import Element, QueryElement, AnyElement, ListElement

    def Q(a):
        q = QueryContainer('')
        q.add_atom(a, 1)
        return q

    n_bad = 0
    for n, sym in enumerate(ORACLE_SYMBOLS, 1):
        cls = Element.from_symbol(sym)
        qcls = QueryElement.from_symbol(sym)
        other = 'C' if sym != 'C' else 'N'
        isos = sorted(cls().isotopes_distribution)
        states = [(iso, 0, False, 0) for iso in isos]
        states += [(None, ch, rad, h) for ch in range(-4, 5) for rad in (False, True) for h in range(5)]
        # the fields are not independent in the layout (isotope-labelled atoms take another branch of the encoder for the radical
        # bit, charge and hydrogens share a word with the isotope bits): every tabulated isotope also with the radical flag, with
        # the extreme and a middle charge / hydrogen count (the theorem covers the full product; the live sweep samples its corners)
        states += [(iso, ch, rad, h) for iso in isos for rad in (False, True) for ch, h in ((0, 0), (-4, 4), (4, 0), (1, 2))
                   if (ch, rad, h) != (0, False, 0)]
        for iso, ch, rad, h in states:
            m = MoleculeContainer()
            m.add_atom(cls(iso, charge=ch, is_radical=rad), 1)
            m._atoms[1]._implicit_hydrogens = h
            m.flush_cache()
            ck.case(('matcher-state', sym, iso, ch, rad, h))
            probes = [('element query without isotope/hydrogen constraint', lambda: qcls(charge=ch, is_radical=rad), True),
                      ('any-element query', lambda: AnyElement(charge=ch, is_radical=rad), True),
                      ('list query', lambda: ListElement([other, sym], charge=ch, is_radical=rad), True),
                      ('element query spelling the state out', lambda: qcls(iso, charge=ch, is_radical=rad, implicit_hydrogens=h), True),
                      ('element query with another hydrogen count', lambda: qcls(charge=ch, is_radical=rad, implicit_hydrogens=(h + 1) % 5), False),
                      ('element query with another charge', lambda: qcls(charge=ch + 1 if ch < 4 else -4, is_radical=rad), False),
                      ('element query with the other radical flag', lambda: qcls(charge=ch, is_radical=not rad), False)]
            if iso is not None:
                probes.append(('element query with another tabulated isotope', lambda: qcls(next((i for i in isos if i != iso), iso + 1), charge=ch, is_radical=rad), False))
            for what, mk, want in probes:
                res = []
                for cy in (True, False):
                    try:
                        res.append(list(Q(mk()).get_mapping(m, _cython=cy)))
                    except Exception as e:
                        res.append(f'raises {type(e).__name__}: {e}')
                exp = [{1: 1}] if want else []
                if (res[0] != exp or res[1] != exp) and n_bad < 12:
                    n_bad += 1
                    ck.counterexample(f'matcher-state:{what}:{sym}:{iso}:{ch}:{rad}:{h}',
                                      f'{sym} (isotope {iso}, charge {ch}, radical {rad}, hydrogens {h}) vs {what}: the matcher does not represent the state',
                                      {'element': sym, 'isotope': iso, 'charge': ch, 'radical': rad, 'hydrogens': h, 'query': what},
                                      {'accelerated': res[0], 'reference': res[1]}, exp, 'one-atom molecule, state-level expectation',
                                      replay_py=f"import iso_pyx; iso_pyx.inject()\nfrom chython import MoleculeContainer, QueryContainer\nfrom chython.periodictable import Element, QueryElement\n"
                                                f"m=MoleculeContainer(); m.add_atom(Element.from_symbol({sym!r})({iso!r}, charge={ch}, is_radical={rad}), 1); m._atoms[1]._implicit_hydrogens={h}; m.flush_cache()\n"
                                                f"q=QueryContainer(''); q.add_atom(QueryElement.from_symbol({sym!r})(charge={ch}, is_radical={rad}), 1)\nprint(list(q.get_mapping(m)), list(q.get_mapping(m, _cython=False)))")
    ck.count('matcher-state sweep (elements x isotopes, charges x radical x hydrogens; 7-8 queries each, both matchers)')


ELEMCODE_EXTRA = r"""From Gen Require Import Elements ElemCode.
From Proofs Require Import ElemCodeTie.
Definition pyv_eqb (a b : pyv) : bool :=
  match a, b with VNone, VNone => true | VInt x, VInt y => Z.eqb x y | VBool x, VBool y => Bool.eqb x y | VOther, VOther => true | _, _ => false end.
Definition el (s : string) : elem := match find (fun e => String.eqb (e_sym e) s) elements with Some e => e | None => mkElem "?"%string 0 0 0 nil nil nil nil (0, 0%nat) 0 false false end.
Definition iso_ok s v exp := pyres_eqb pyv_eqb (g_isotope_set (el s) v) exp.
Definition chg_ok s v exp := pyres_eqb pyv_eqb (g_charge_set (el s) v) exp.
Definition rad_ok s v exp := pyres_eqb pyv_eqb (g_is_radical_set (el s) v) exp.
Definition t3_eqb (a b : pyv * pyv * pyv) : bool := let '(a1, a2, a3) := a in let '(b1, b2, b3) := b in pyv_eqb a1 b1 && pyv_eqb a2 b2 && pyv_eqb a3 b3.
Definition init_ok s i c r d exp := pyres_eqb t3_eqb (g_init (el s) i c r d) exp.
Definition mass_ok s iso (exp : Z) : bool :=
  match g_atomic_mass (el s) iso with
  | Ok (MSum m) => Z.abs (m - exp) <=? 10 ^ 13
  | Ok (MOne d) => Z.abs (g_scale d * 10 ^ 12 - exp) <=? 10 ^ 13
  | Err _ => false
  end.
Definition mass_err s iso : bool := match g_atomic_mass (el s) iso with Err KeyError => true | _ => false end.
Definition res_sym (r : pyres elem) : pyres string := match r with Ok e => Ok (e_sym e) | Err x => Err x end.
Definition sym_ok s exp := pyres_eqb String.eqb (res_sym (g_from_symbol s)) exp.
Definition hist_ok (fresh : bool) ns exp := list_eqb (pyres_eqb String.eqb) (map res_sym (run_lookups (if fresh then nil else filled_cache) ns)) exp.
Definition cache_ok_after n (exp : list (Z * string)) : bool :=
  match snd (g_from_atomic_number nil n) with
  | (k, t) :: nil => String.eqb k "elements"%string && list_eqb (fun a b => Z.eqb (fst a) (fst b) && String.eqb (snd a) (snd b)) (map (fun kv => (fst kv, e_sym (snd kv))) t) exp
  | _ => false
  end.
"""


def correspondence_elemcode(ck):
    """the functions translated from element.py (Gen.ElemCode) against the running methods, on the same inputs: every element x
    (None, every tabulated isotope, neighbours of the table, bools, str, float) through the isotope / charge / is_radical setters
    and __init__ (with delta_isotope, with both isotope and delta), atomic_mass with and without isotope and with an isotope
    forced past the setter, from_symbol on all symbols and malformed ones, from_atomic_number as call HISTORIES from an emptied
    class cache (the dictionary left in the cache is compared entry by entry)"""
    import random
    from fractions import Fraction
    import coqcases
    from coqfmt import s as cs, zraw, lst
    from chython.periodictable import Element
    rng = random.Random(1800 + ck.seed)
    EXN = {'KeyError', 'ValueError', 'IndexError', 'TypeError', 'StopIteration', 'AttributeError'}

    def pv(v):
        if v is None:
            return 'VNone'
        if isinstance(v, bool):
            return f'(VBool {"true" if v else "false"})'
        if isinstance(v, int):
            return f'(VInt {zraw(v)})'
        return 'VOther'

    def exn(e):
        n = type(e).__name__
        return f'(Err {n})' if n in EXN else '(Err OtherError)'

    def stored(a, v):
        """what the slot holds after a successful store: must be the very object that was passed"""
        return a is v or (type(a) is type(v) and a == v)

    cases, meta = [], []

    def add(c, m):
        cases.append(c)
        meta.append(m)

    odd = [True, False, 'C', 1.0, (1,)]
    few_elements = {1, 6, 118} | set(rng.sample(range(1, 119), 5))
    for n, sym in enumerate(ORACLE_SYMBOLS, 1):
        cls = Element.from_symbol(sym)
        inst = cls()
        keys = sorted(inst.isotopes_distribution)
        vals = [None] + keys + [keys[0] - 1, keys[-1] + 1, inst.mdl_isotope, 0, -1, n] + odd
        vals += [k for k in range(keys[0], keys[-1]) if k not in keys][:3]
        for v in vals:
            a = cls()
            try:
                a.isotope = v
                exp = f'(Ok {pv(v)})' if stored(a._isotope, v) else '(Err OtherError)'
            except Exception as e:
                exp = exn(e)
            add(f'iso_ok {cs(sym)} {pv(v)} {exp}', ('isotope setter', sym, repr(v), exp))
            ck.case(('src-iso', sym, repr(v)))
        few = n in few_elements       # the translated charge / is_radical setters do not read the element (theorem): a few classes suffice
        for v in (list(range(-6, 7)) + [None] + odd) if few else ():
            a = cls()
            try:
                a.charge = v
                exp = f'(Ok {pv(v)})' if stored(a._charge, v) else '(Err OtherError)'
            except Exception as e:
                exp = exn(e)
            add(f'chg_ok {cs(sym)} {pv(v)} {exp}', ('charge setter', sym, repr(v), exp))
        for v in [True, False, None, 0, 1, 'x', 1.0] if few else ():
            a = cls()
            try:
                a.is_radical = v
                exp = f'(Ok {pv(v)})' if stored(a._is_radical, v) else '(Err OtherError)'
            except Exception as e:
                exp = exn(e)
            add(f'rad_ok {cs(sym)} {pv(v)} {exp}', ('is_radical setter', sym, repr(v), exp))
        # __init__
        inits = [(None, 0, False, None)] + [(k, rng.randint(-5, 5), rng.random() < .5, None) for k in keys]
        inits += [(None, rng.randint(-4, 4), rng.random() < .5, d) for d in (-9, -8, -1, 0, 1, 8, 9, rng.randint(-12, 12))]
        inits += [(None, 0, False, k - inst.mdl_isotope) for k in keys[:2]]
        inits += [(keys[0], 0, False, 0), (keys[0], 0, False, 1), ('C', 0, False, None), (None, 'x', False, None), (None, 0, 1, None),
                  (keys[0] - 1, 9, 'x', None), (None, 9, 'x', None), (True, 0, False, None), (None, True, False, None)]
        for iso, ch, rad, d in inits:
            try:
                a = cls(iso, charge=ch, is_radical=rad, delta_isotope=d)
                exp = f'(Ok ({pv(a._isotope)}, {pv(a._charge)}, {pv(a._is_radical)}))'
            except Exception as e:
                exp = exn(e)
            add(f'init_ok {cs(sym)} {pv(iso)} {pv(ch)} {pv(rad)} {pv(d)} {exp}', ('__init__', sym, (iso, ch, rad, d), exp))
            ck.case(('src-init', sym, repr(iso), repr(ch), repr(rad), repr(d)))
        # atomic_mass
        for k in [None] + keys + [keys[-1] + 7, 0]:
            a = cls()
            a._isotope = k          # past the setter: the getter alone decides
            iso = 'None' if k is None else f'(Some {zraw(k)})'
            try:
                m = a.atomic_mass
                add(f'mass_ok {cs(sym)} {iso} {zraw(round(Fraction(m) * 10 ** 24))}', ('atomic_mass', sym, k, m))
            except KeyError:
                add(f'mass_err {cs(sym)} {iso}', ('atomic_mass', sym, k, 'KeyError'))
            except Exception as e:
                add('false', ('atomic_mass', sym, k, f'raises {type(e).__name__}'))
            ck.case(('src-mass', sym, k))
    ck.count('translated setters / __init__ / atomic_mass vs the running methods (118 elements x values)', len(cases))
    n0 = len(cases)
    # lookups
    for sname in ORACLE_SYMBOLS + ['', 'Xx', 'c', 'h', 'QueryC', 'DynamicC', 'Element', 'H ', 'HE', 'D', 'T', 'R', 'A', 'M', 'X']:
        try:
            exp = f'(Ok {cs(Element.from_symbol(sname).__name__)})'
        except Exception as e:
            exp = exn(e)
        add(f'sym_ok {cs(sname)} {exp}', ('from_symbol', sname, exp))
        ck.case(('src-sym', sname))
    saved = dict(Element.__class_cache__)
    try:
        for h in range(12):
            fresh = h % 2 == 0
            if fresh:
                Element.__class_cache__.pop('elements', None)
            ns = [rng.choice([rng.randint(1, 118), rng.randint(-3, 125), 0, 119, 118, 1]) for _ in range(rng.randint(1, 12))]
            res = []
            for k in ns:
                try:
                    res.append(f'(Ok {cs(Element.from_atomic_number(k).__name__)})')
                except Exception as e:
                    res.append(exn(e))
            add(f'hist_ok {"true" if fresh else "false"} {lst([zraw(k) for k in ns])} {lst(res)}', ('from_atomic_number history', fresh, ns, res))
            ck.case(('src-hist', fresh, tuple(ns)))
            if fresh:
                tab = Element.__class_cache__.get('elements') or {}
                add(f'cache_ok_after {zraw(ns[0])} {lst([f"({zraw(k)}, {cs(v.__name__)})" for k, v in tab.items()])}',
                    ('class cache after the first lookup', ns[0], len(tab)))
    finally:
        Element.__class_cache__.clear()
        Element.__class_cache__.update(saved)
    ck.count('translated lookups vs the running methods (symbols, malformed symbols, call histories, cache contents)', len(cases) - n0)
    ok, failing, log = coqcases.run_cases('c18src', 'PeriodicTable', cases, extra=ELEMCODE_EXTRA, shard=400)   # (the nat indices make a shard quadratic in its length)
    ck.oblige('correspondence: element.py methods as translated (Gen.ElemCode) == running methods on the same inputs', ok and not failing,
              'correspondence', log or str([meta[i] for i in failing[:5]]))
    ck.extra['correspondence_cases'] = len(cases)
    ck.sample({'model_call': cases[3], 'meta': repr(meta[3])})
    ck.sample({'model_call': cases[-1][:300], 'meta': repr(meta[-1])[:300]})
    if not ok or failing:
        ck.unchecked('correspondence Gen.ElemCode (translated element.py) vs running chython/periodictable/base/element.py', log[-1500:],
                     [repr(meta[i]) for i in failing[:20]])
    return ok and not failing


ELEMRULES_EXTRA = r"""From Model Require Import Valence.
From Gen Require Import Elements ElemRules.
Definition el (s : string) : elem := match find (fun e => String.eqb (e_sym e) s) elements with Some e => e | None => mkElem "?"%string 0 0 0 nil nil nil nil (0, 0%nat) 0 false false end.
Definition edict_eqb (a b : edict) : bool := list_eqb (fun x y => ekey_eqb (fst x) (fst y) && Z.eqb (snd x) (snd y)) a b.
(* a Python set has no order: same elements, same size *)
Definition eset_eqb (a b : list ekey) : bool :=
  Nat.eqb (List.length a) (List.length b) && forallb (fun x => existsb (ekey_eqb x) b) a && forallb (fun x => existsb (ekey_eqb x) a) b.
Definition rule_eqb (a b : rule) : bool := eset_eqb (r_set a) (r_set b) && edict_eqb (r_dict a) (r_dict b) && Z.eqb (r_h a) (r_h b).
Definition rtable_eqb (a b : rtable) : bool := list_eqb (fun x y => rkey_eqb (fst x) (fst y) && list_eqb rule_eqb (snd x) (snd y)) a b.
Definition rules_ok s (exp : pyres rtable) := pyres_eqb rtable_eqb (g_compiled_valence_rules (el s)) exp.
Definition sat_eqb (a b : satrule) : bool :=
  let '(c1, r1, v1, i1, d1) := a in let '(c2, r2, v2, i2, d2) := b in
  Z.eqb c1 c2 && Bool.eqb r1 r2 && Z.eqb v1 v2 && Z.eqb i1 i2 && option_eqb edict_eqb d1 d2.
Definition sat_ok s (exp : pyres (list satrule)) := pyres_eqb (list_eqb sat_eqb) (g_compiled_saturation_rules (el s)) exp.
Definition cr_ok s (exp : list (Z * bool)) :=
  let got := g_compiled_charge_radical (el s) in
  let eq := fun (x y : Z * bool) => Z.eqb (fst x) (fst y) && Bool.eqb (snd x) (snd y) in
  Nat.eqb (List.length got) (List.length exp) && forallb (fun x => existsb (eq x) exp) got && forallb (fun x => existsb (eq x) got) exp.
Definition vr_ok s c r v (exp : pyres (list rule)) := pyres_eqb (list_eqb rule_eqb) (g_valence_rules (el s) c r v) exp.
"""


def correspondence_elemrules(ck):
    """the valence-table compilers translated from element.py (Gen.ElemRules) against the running class properties: the complete
    compiled rule dictionary (keys in insertion order, every rule's set, dict and hydrogen count), the saturation rule list and the
    (charge, radical) set of all 118 elements, and valence_rules(v) on atoms in tabulated and untabulated states (ValenceError)"""
    import random
    import coqcases
    from coqfmt import s as cs, zraw, lst
    from chython.periodictable import Element
    rng = random.Random(1801 + ck.seed)

    def bo(v):
        return 'true' if v else 'false'

    def ek(k):
        return f'({zraw(k[0])}, {zraw(k[1])})'

    def rule(r):
        st, d, h = r
        return f'(mkRule {lst([ek(k) for k in sorted(st)])} {lst([f"({ek(k)}, {zraw(c)})" for k, c in d.items()])} {zraw(h)})'

    def exn(e):
        n = type(e).__name__
        return f'(Err {n})' if n in ('KeyError', 'IndexError', 'ValenceError', 'ValueError', 'TypeError') else '(Err OtherError)'

    cases, meta = [], []
    for n, sym in enumerate(ORACLE_SYMBOLS, 1):
        cls = Element.from_symbol(sym)
        a = cls()
        try:
            t = a._compiled_valence_rules
            exp = '(Ok ' + lst([f'(({zraw(c)}, {bo(r)}, {zraw(v)}), {lst([rule(x) for x in rr])})' for (c, r, v), rr in t.items()]) + ')'
        except Exception as e:
            t, exp = None, exn(e)
        cases.append(f'rules_ok {cs(sym)} {exp}')
        meta.append(('_compiled_valence_rules', sym))
        try:
            sr = a._compiled_saturation_rules
            exp = '(Ok ' + lst(['(' + ', '.join([zraw(c), bo(r), zraw(v), zraw(i), 'None' if d is None else
                                                   '(Some ' + lst([f"({ek(k)}, {zraw(x)})" for k, x in d.items()]) + ')']) + ')'
                                for c, r, v, i, d in sr]) + ')'
        except Exception as e:
            exp = exn(e)
        cases.append(f'sat_ok {cs(sym)} {exp}')
        meta.append(('_compiled_saturation_rules', sym))
        try:
            cr = a._compiled_charge_radical
            cases.append(f'cr_ok {cs(sym)} {lst([f"({zraw(c)}, {bo(r)})" for c, r in sorted(cr)])}')
        except Exception as e:
            cases.append('false')
        meta.append(('_compiled_charge_radical', sym))
        ck.case(('src-rules', sym))
        probes = [(0, False, v) for v in range(0, 9)]
        if t:
            probes += [k for k in t if k[0] != 0 or k[1]][:6]
        probes += [(rng.randint(-4, 4), rng.random() < .3, rng.randint(0, 8)) for _ in range(4)]
        for c, r, v in probes:
            b = cls(charge=c, is_radical=r)
            try:
                exp = '(Ok ' + lst([rule(x) for x in b.valence_rules(v)]) + ')'
            except Exception as e:
                exp = exn(e)
            cases.append(f'vr_ok {cs(sym)} {zraw(c)} {bo(r)} {zraw(v)} {exp}')
            meta.append(('valence_rules', sym, c, r, v))
            ck.case(('src-vrules', sym, c, r, v))
    ck.count('translated valence-table compilers vs the running class properties (118 elements: 3 tables + valence_rules probes)', len(cases))
    ok, failing, log = coqcases.run_cases('c18rules', 'PeriodicTable', cases, extra=ELEMRULES_EXTRA, shard=300)
    ck.oblige('correspondence: valence-table compilers as translated (Gen.ElemRules) == running _compiled_* properties / valence_rules', ok and not failing,
              'correspondence', log or str([meta[i] for i in failing[:5]]))
    ck.extra['correspondence_cases'] = ck.extra.get('correspondence_cases', 0) + len(cases)
    ck.sample({'model_call': cases[15][:400], 'meta': repr(meta[15])})
    if not ok or failing:
        ck.unchecked('correspondence Gen.ElemRules (translated valence-table compilers) vs running chython/periodictable/base/element.py', log[-1500:],
                     [repr(meta[i]) for i in failing[:20]])
    return ok and not failing


ELEMVARIANTS_EXTRA = r"""From Gen Require Import Elements ElemCode ElemVariants.
Definition vres (r : pyres vclass) : pyres string := match r with Ok c => Ok (v_name c) | Err x => Err x end.
Definition qresn (r : pyres qres) : pyres string :=
  match r with Ok (QClass c) => Ok (v_name c) | Ok QAnyElement => Ok "AnyElement"%string | Ok QAnyMetal => Ok "AnyMetal"%string | Err x => Err x end.
Definition dsym_ok s exp := pyres_eqb String.eqb (vres (g_dynamic_from_symbol s)) exp.
Definition qsym_ok s exp := pyres_eqb String.eqb (qresn (g_query_from_symbol s)) exp.
Definition dnum_ok n exp := pyres_eqb String.eqb (vres (g_dynamic_from_atomic_number n)) exp.
Definition qnum_ok n exp := pyres_eqb String.eqb (qresn (g_query_from_atomic_number n)) exp.
Definition dorder_ok (exp : list (string * Z)) : bool :=
  list_eqb (fun a b => String.eqb (fst a) (fst b) && Z.eqb (snd a) (snd b)) (map (fun c => (v_name c, v_num c)) g_dynamic_classes) exp.
Definition qorder_ok (exp : list (string * Z * Z)) : bool :=
  list_eqb (fun a b => let '(s1, n1, m1) := a in let '(s2, n2, m2) := b in String.eqb s1 s2 && Z.eqb n1 n2 && Z.eqb m1 m2)
           (map (fun c => (v_name c, v_num c, match v_mdl c with Some m => m | None => -1 end)) g_query_classes) exp.
Definition dsymbol_ok name sym := String.eqb (g_dynamic_symbol (mkV name 0 None)) sym.
Definition qsymbol_ok name sym := String.eqb (g_query_symbol (mkV name 0 None)) sym.
"""


def correspondence_elemvariants(ck):
    """the Query* / Dynamic* classes and their lookup / symbol methods as translated (Gen.ElemVariants) against the running package:
    the subclasses of both variant bases in creation order with number (and reference isotope), from_symbol on all symbols, the two
    wildcard letters and malformed symbols, from_atomic_number on -3..125, and the symbol every variant INSTANCE reports"""
    import coqcases
    from coqfmt import s as cs, zraw, lst
    from chython.periodictable import DynamicElement, QueryElement

    def res(f, a):
        try:
            return f'(Ok {cs(f(a).__name__)})'
        except Exception as e:
            n = type(e).__name__
            return f'(Err {n})' if n in ('KeyError', 'ValueError', 'IndexError', 'TypeError', 'StopIteration', 'AttributeError') else '(Err OtherError)'

    cases, meta = [], []
    dsub, qsub = DynamicElement.__subclasses__(), QueryElement.__subclasses__()
    cases.append('dorder_ok ' + lst([f'({cs(c.__name__)}, {zraw(c.atomic_number.fget(None))})' for c in dsub]))
    meta.append(('DynamicElement.__subclasses__() in order',))
    cases.append('qorder_ok ' + lst([f'({cs(c.__name__)}, {zraw(c.atomic_number.fget(None))}, {zraw(c.mdl_isotope.fget(None))})' for c in qsub]))
    meta.append(('QueryElement.__subclasses__() in order',))
    for sname in ORACLE_SYMBOLS + ['A', 'M', '', 'Xx', 'c', 'QueryC', 'DynamicC', 'C ', 'R', 'X', 'a', 'm', 'AM']:
        cases.append(f'dsym_ok {cs(sname)} {res(DynamicElement.from_symbol, sname)}')
        meta.append(('DynamicElement.from_symbol', sname))
        cases.append(f'qsym_ok {cs(sname)} {res(QueryElement.from_symbol, sname)}')
        meta.append(('QueryElement.from_symbol', sname))
        ck.case(('src-variant-sym', sname))
    for k in range(-3, 126):
        cases.append(f'dnum_ok {zraw(k)} {res(DynamicElement.from_atomic_number, k)}')
        meta.append(('DynamicElement.from_atomic_number', k))
        cases.append(f'qnum_ok {zraw(k)} {res(QueryElement.from_atomic_number, k)}')
        meta.append(('QueryElement.from_atomic_number', k))
        ck.case(('src-variant-num', k))
    for c in dsub:
        try:
            got = c(None).atomic_symbol
            cases.append(f'dsymbol_ok {cs(c.__name__)} {cs(got)}')
        except Exception:
            cases.append('false')
        meta.append(('DynamicElement instance atomic_symbol', c.__name__))
    for c in qsub:
        try:
            got = c().atomic_symbol
            cases.append(f'qsymbol_ok {cs(c.__name__)} {cs(got)}')
        except Exception:
            cases.append('false')
        meta.append(('QueryElement instance atomic_symbol', c.__name__))
    ck.count('translated variant classes / lookups / symbols vs the running package', len(cases))
    ok, failing, log = coqcases.run_cases('c18var', 'PeriodicTable', cases, extra=ELEMVARIANTS_EXTRA, shard=400)
    ck.oblige('correspondence: Query* / Dynamic* classes and their methods as translated (Gen.ElemVariants) == running package', ok and not failing,
              'correspondence', log or str([meta[i] for i in failing[:5]]))
    ck.extra['correspondence_cases'] = ck.extra.get('correspondence_cases', 0) + len(cases)
    ck.sample({'model_call': cases[5][:300], 'meta': repr(meta[5])})
    if not ok or failing:
        ck.unchecked('correspondence Gen.ElemVariants (translated variant classes) vs running chython/periodictable', log[-1500:],
                     [repr(meta[i]) for i in failing[:20]])
    return ok and not failing


replay = common.generic_replay


def run(ck):
    ck.trusted += ['translator tools/gen_elemvariants.py (Python ast: the two class-creating loops of periodictable/__init__.py, atomic_symbol / from_symbol / from_atomic_number of DynamicElement and QueryElement -> Gallina, fail closed; order of the classes = import order x __all__ order, re-checked against the running interpreter)',
                   'translator tools/gen_elemrules.py (Python ast: bodies of _compiled_valence_rules / _compiled_saturation_rules / _compiled_charge_radical / valence_rules -> Gallina, fail closed; container semantics = helpers of Model.Valence)',
                   'translator tools/gen_elemcode.py (Python ast: bodies of the isotope / charge / is_radical setters, __init__, atomic_mass, from_symbol, from_atomic_number of element.py -> Gallina, fail closed; float tables read as exact decimals)',
                   'translator tools/gen_isolayout.py (Python ast: the per-atom encoder statements of isomorphism.py -> Gallina, fail closed; attribute-to-field mapping in its PRELUDE)',
                   'translator tools/gen_elements.py (Python ast over periodictable/group*.py; regex over the two .pyx tables)',
                   'tools/gen_runtime.py (imports chython under the CachedMethods shim harness/boot.py)',
                   'CPython 3.12.1', 'tools/pyx2py.py (fail-closed .pyx transpiler, for the pack representability sweep)',
                   'harness/iso_pyx.py (fail-closed transpiler of _isomorphism.pyx, for the matcher representability sweep)']
    ck.assumptions += ['generated coq/gen/Elements.v is a faithful copy of the literals in /repo (translator is fail-closed; '
                       'the Python sweep below re-derives every statement from the live classes without the translator)']
    ck.extra['rule'] = ('proof: every statement quantifies over the complete generated table (118 elements x all tabulated isotopes); '
                        'search: same space on the live classes plus charge -4..4 x radical; a case is (element, isotope) or '
                        '(element, charge, radical); all are distinct')
    ck.extra['exhaustive'] = True
    proved = common.standard_proof_steps(ck, translators=['elements', 'runtime', 'isolayout', 'elemcode', 'elemrules', 'elemvariants'])
    if proved:
        proved = correspondence_elemcode(ck) and proved
        proved = correspondence_elemrules(ck) and proved
        proved = correspondence_elemvariants(ck) and proved
    search(ck)
    search_construction_and_rules(ck)
    search_lookup_entry_points(ck)
    search_pack_states(ck)
    search_variant_symbols(ck)
    search_matcher_states(ck)
    ck.extra['proved'] = proved
