"""C18 periodic table data: finite, fully proved over regenerated tables; the real classes are also swept
exhaustively in Python (independent of the translator) so that a broken obligation comes with a concrete element."""
import json
import re

import boot  # noqa
import common

ORACLE_SYMBOLS = ('H He Li Be B C N O F Ne Na Mg Al Si P S Cl Ar K Ca Sc Ti V Cr Mn Fe Co Ni Cu Zn Ga Ge As Se Br Kr '
                  'Rb Sr Y Zr Nb Mo Tc Ru Rh Pd Ag Cd In Sn Sb Te I Xe Cs Ba La Ce Pr Nd Pm Sm Eu Gd Tb Dy Ho Er Tm Yb '
                  'Lu Hf Ta W Re Os Ir Pt Au Hg Tl Pb Bi Po At Rn Fr Ra Ac Th Pa U Np Pu Am Cm Bk Cf Es Fm Md No Lr Rf '
                  'Db Sg Bh Hs Mt Ds Rg Cn Nh Fl Mc Lv Ts Og').split()


def pyx_table(path, name):
    src = open(path).read()
    m = re.search(rf'{name}\[:\] = \[([^\]]*)\]', src)
    return [int(x) for x in m.group(1).replace('\n', ' ').split(',')]


def search(ck):
    """exhaustive sweep of the real classes: 118 elements x tabulated isotopes x charges x radical"""
    import chython.periodictable as pt
    from chython.periodictable import Element
    pk = pyx_table(common.REPO + '/chython/containers/_pack_v2.pyx', 'common_isotopes')
    up = pyx_table(common.REPO + '/chython/containers/_unpack_v0v2.pyx', 'common_isotopes')
    src = open(common.REPO + '/chython/containers/_unpack_v0v2.pyx').read()
    uel = [x.strip() for x in re.search(r'^elements = \[([^\]]*)\]', src, re.M).group(1).replace('\n', ' ').split(',')]
    if uel != ['None'] + ORACLE_SYMBOLS:
        bad = next((i for i, (a, b) in enumerate(zip(uel, ['None'] + ORACLE_SYMBOLS)) if a != b), len(uel))
        ck.counterexample(f'unpack-elements:{bad}', f'unpacker element list differs from the symbol table at index {bad}',
                          {'index': bad}, uel[bad] if bad < len(uel) else None, (['None'] + ORACLE_SYMBOLS)[bad], 'standard table')
    for n, sym in enumerate(ORACLE_SYMBOLS, 1):
        def bad(key, what, observed, expected):
            ck.counterexample(f'{key}:{sym}', f'{sym}: {what}', {'element': sym, 'number': n}, observed, expected,
                              'exhaustive sweep of the element classes',
                              replay_py=f'from chython.periodictable import Element; c=Element.from_symbol({sym!r}); print(c().atomic_number, c().isotopes_distribution, c().isotopes_masses, c().mdl_isotope)')
        try:
            c = Element.from_atomic_number(n)
        except Exception as e:
            bad('from_number', f'from_atomic_number({n}) raises', type(e).__name__, sym)
            continue
        if c.__name__ != sym:
            bad('from_number', f'from_atomic_number({n}) gives {c.__name__}', c.__name__, sym)
        try:
            c2 = Element.from_symbol(sym)
        except Exception as e:
            bad('from_symbol', f'from_symbol raises', type(e).__name__, n)
            continue
        e = c2()
        if e.atomic_number != n:
            bad('from_symbol', f'from_symbol gives number {e.atomic_number}', e.atomic_number, n)
        dist, mass = e.isotopes_distribution, e.isotopes_masses
        if set(dist) != set(mass):
            bad('isotope-keys', 'abundance and mass tables have different keys', [sorted(dist), sorted(mass)], 'same keys')
        if e.mdl_isotope not in dist:
            bad('mdl_isotope', f'mdl_isotope {e.mdl_isotope} is not among the isotope keys', e.mdl_isotope, sorted(dist))
        try:
            m = e.atomic_mass
            if not m > 0:
                bad('mass', 'average mass not positive', m, '>0')
        except Exception as ex:
            bad('mass', 'atomic_mass raises', type(ex).__name__, 'a number')
        if pk[n] != e.mdl_isotope - 16 or up[n] != pk[n]:
            bad('pyx-isotope-table', '.pyx common_isotopes entry differs from mdl_isotope - 16', [pk[n], up[n]], e.mdl_isotope - 16)
        for iso in dist:
            ck.case(('iso', sym, iso))
            try:
                a = c2(iso)
                a.atomic_mass
            except Exception as ex:
                bad(f'isotope{iso}', f'isotope {iso} not constructible / no mass', type(ex).__name__, 'ok')
                continue
            off = iso - pk[n]
            if not (1 <= off <= 31) or up[n] + off != iso:
                bad(f'pack-isotope{iso}', f'isotope {iso} does not fit the 5-bit pack field', off, '1..31')
            if not (-8 <= iso - e.mdl_isotope <= 8):
                bad(f'matcher-isotope{iso}', f'isotope {iso} outside the matcher isotope bits', iso - e.mdl_isotope, '-8..8')
        for ch in range(-4, 5):
            for rad in (False, True):
                ck.case(('cr', sym, ch, rad))
                try:
                    a = c2(charge=ch, is_radical=rad)
                    if a.charge != ch or a.is_radical != rad:
                        bad('charge', f'charge/radical not stored', [a.charge, a.is_radical], [ch, rad])
                except Exception as ex:
                    bad('charge', f'charge {ch} rejected', type(ex).__name__, 'accepted')
        try:
            rules = e._compiled_valence_rules
            hmax = max((h for rr in rules.values() for *_, h in rr), default=0)
            if hmax > 4:
                bad('hydrogens', f'valence table yields {hmax} implicit hydrogens (> 4, matcher field)', hmax, '<=4')
            e._compiled_saturation_rules
        except Exception as ex:
            bad('valence-compile', 'valence tables do not compile', type(ex).__name__, 'compiles')
        for pref, base in (('Dynamic', pt.DynamicElement), ('Query', pt.QueryElement)):
            v = getattr(pt, pref + sym, None)
            if v is None or not issubclass(v, base):
                bad('variant', f'{pref}{sym} missing', None, 'class')
            else:
                inst = v() if pref == 'Query' else None
                num = v.atomic_number.fget(None)
                if num != n:
                    bad('variant', f'{pref}{sym} has number {num}', num, n)
    ck.sample({'element': 'Br', 'mdl_isotope': 80, 'isotopes': [79, 81], 'pack offsets': [79 - pk[35], 81 - pk[35]]})
    ck.sample({'element': 'Hs', 'isotopes': sorted(Element.from_symbol('Hs')().isotopes_distribution)})


LOOKUP_PROBE = r"""
import boot, sys, json
from chython.periodictable import Element
import chython.periodictable as pt
mode = sys.argv[1]
SY = sys.argv[2].split()
out = []
try:
    if mode == 'subclass-number':      # first number lookup of the process goes through a concrete element class
        first = pt.C.from_atomic_number(8).__name__
    elif mode == 'instance-number':    # ... through an atom instance
        first = pt.N().from_atomic_number(8).__name__
    elif mode == 'subclass-symbol':
        first = pt.C.from_symbol('O').__name__
    elif mode == 'query-number':
        first = pt.QueryElement.from_atomic_number(8).__name__
    else:
        first = Element.from_atomic_number(8).__name__
except Exception as e:
    first = 'raises ' + type(e).__name__
out.append(['first', first])
for n, sym in enumerate(SY, 1):
    for fn, arg, exp in ((Element.from_atomic_number, n, sym), (Element.from_symbol, sym, sym)):
        try:
            got = fn(arg).__name__
        except Exception as e:
            got = 'raises ' + type(e).__name__
        if got != exp:
            out.append([fn.__name__, arg, got, exp])
print(json.dumps(out))
"""


def search_lookup_entry_points(ck):
    """the lookups are class methods with a process-wide cache: every entry point (base class, concrete element class, atom
    instance, query class) must leave all 118 lookups intact, whichever is used FIRST in a fresh interpreter"""
    import os
    import subprocess
    import sys
    env = dict(os.environ)
    for mode in ('base-number', 'subclass-number', 'instance-number', 'subclass-symbol', 'query-number'):
        r = subprocess.run([sys.executable, '-c', LOOKUP_PROBE, mode, ' '.join(ORACLE_SYMBOLS)], env=env, capture_output=True, text=True, timeout=300)
        ck.case(('lookup-entry', mode))
        ck.count('lookup entry points probed in a fresh interpreter')
        try:
            res = json.loads(r.stdout.strip().split('\n')[-1])
        except Exception:
            ck.counterexample(f'lookup-entry:{mode}', f'lookup probe ({mode} first) crashed', {'first call': mode}, (r.stdout + r.stderr)[-400:], 'a result',
                              'fresh interpreter probe')
            continue
        first = res[0][1]
        want = 'QueryO' if mode == 'query-number' else 'O'
        bad = res[1:]
        if first != want or bad:
            ck.counterexample(f'lookup-entry:{mode}', f'after a first lookup through {mode.split("-")[0]} the symbol / number lookups are no longer mutually inverse '
                              f'and standard ({len(bad)} of 236 lookups wrong)', {'first call': mode}, {'first': first, 'wrong': bad[:5]}, {'first': want, 'wrong': []},
                              'standard table, fresh interpreter',
                              replay_py="import chython.periodictable as pt\nfrom chython.periodictable import Element\nprint(pt.C.from_atomic_number(8)); print(Element.from_atomic_number(6))")


def search_pack_states(ck):
    """every tabulated (element, isotope), every charge -4..4 with radical flag, every hydrogen count 0..4/None survives the real
    pack -> unpack (the codecs run through the fail-closed .pyx transpiler): representability in the pack format, end to end"""
    import pyxinject
    try:
        pyxinject.inject(('pack', 'unpack'))
    except Exception as e:
        ck.unchecked('pyx transpiler (pack/unpack) for the representability sweep', f'{type(e).__name__}: {e}')
        return
    from chython import MoleculeContainer
    from chython.periodictable import Element
    n_bad = 0
    for n, sym in enumerate(ORACLE_SYMBOLS, 1):
        cls = Element.from_symbol(sym)
        states = [(iso, 0, False, 0) for iso in cls().isotopes_distribution]
        states += [(None, ch, rad, 0) for ch in range(-4, 5) for rad in (False, True)]
        states += [(None, 0, False, h) for h in (0, 1, 2, 3, 4, None)]
        for iso, ch, rad, h in states:
            m = MoleculeContainer()
            a = cls(iso, charge=ch, is_radical=rad)
            m.add_atom(a, 1, _skip_calculation=True)
            m._atoms[1]._implicit_hydrogens = h
            ck.case(('pack-state', sym, iso, ch, rad, h))
            try:
                u = MoleculeContainer.unpack(m.pack(), skip_labels_calculation=True)
                b = u._atoms[1]
                got = (b.atomic_symbol, b.isotope, b.charge, b.is_radical, b.implicit_hydrogens)
            except Exception as e:
                got = f'raises {type(e).__name__}: {e}'
            exp = (sym, iso, ch, rad, h)
            if got != exp and n_bad < 12:
                n_bad += 1
                ck.counterexample(f'pack-state:{sym}:{iso}:{ch}:{rad}:{h}', f'{sym}: the state (isotope {iso}, charge {ch}, radical {rad}, hydrogens {h}) does not survive pack -> unpack',
                                  {'element': sym, 'isotope': iso, 'charge': ch, 'radical': rad, 'hydrogens': h}, got, exp, 'pack/unpack round trip of a one-atom molecule',
                                  replay_py=f"import pyxinject; pyxinject.inject(('pack','unpack'))\nfrom chython import MoleculeContainer\nfrom chython.periodictable import Element\n"
                                            f"m=MoleculeContainer(); m.add_atom(Element.from_symbol({sym!r})({iso!r}, charge={ch}, is_radical={rad}), 1, _skip_calculation=True); m._atoms[1]._implicit_hydrogens={h!r}\n"
                                            f"u=MoleculeContainer.unpack(m.pack(), skip_labels_calculation=True); a=u._atoms[1]; print(a.atomic_symbol, a.isotope, a.charge, a.is_radical, a.implicit_hydrogens)")
    ck.count('pack-state sweep (elements x isotopes, charges x radical, hydrogens)')


def search_variant_symbols(ck):
    """query and dynamic variants: class lookup by number and by symbol, construction from an atom, and the symbol / number the
    INSTANCE reports, for all 118 elements (the symbol of a variant is derived from its class name)"""
    import chython.periodictable as pt
    from chython.periodictable import Element, DynamicElement, QueryElement
    for n, sym in enumerate(ORACLE_SYMBOLS, 1):
        ck.case(('variant-symbol', sym))
        atom = None
        probes = []
        try:
            atom = Element.from_symbol(sym)()
            probes.append(('Element instance', atom))
        except Exception:
            pass
        for pref, base in (('Dynamic', DynamicElement), ('Query', QueryElement)):
            for how, get in (('from_atomic_number', lambda: base.from_atomic_number(n)), ('from_symbol', lambda: base.from_symbol(sym)),
                             ('module attribute', lambda: getattr(pt, pref + sym))):
                try:
                    c = get()
                    inst = c(None) if pref == 'Dynamic' else c()
                    probes.append((f'{pref}Element.{how}', inst))
                except Exception as e:
                    probes.append((f'{pref}Element.{how}', e))
            if atom is not None:
                try:
                    probes.append((f'{pref}Element.from_atom', base.from_atom(atom)))
                except Exception as e:
                    probes.append((f'{pref}Element.from_atom', e))
        for how, inst in probes:
            if isinstance(inst, Exception):
                got = f'raises {type(inst).__name__}'
            else:
                try:
                    got = [inst.atomic_symbol, inst.atomic_number]
                except Exception as e:
                    got = f'raises {type(e).__name__}'
            if got != [sym, n]:
                ck.counterexample(f'variant-symbol:{how}:{sym}', f'{sym}: the variant obtained through {how} does not report symbol {sym} / number {n}',
                                  {'element': sym, 'number': n, 'via': how}, got, [sym, n], 'standard table',
                                  replay_py=f"from chython.periodictable import Element, DynamicElement, QueryElement\n"
                                            f"print(DynamicElement.from_atomic_number({n})(None).atomic_symbol, QueryElement.from_atomic_number({n})().atomic_symbol, "
                                            f"DynamicElement.from_atom(Element.from_symbol({sym!r})()).atomic_symbol)")
    ck.count('variant symbol sweep (118 elements x 9 ways to obtain a variant)')


def search_matcher_states(ck):
    """every tabulated (element, isotope), every charge -4..4 x radical x hydrogen count 0..4 is representable in the matcher bit
    layout, end to end: a one-atom molecule in that state must be found by queries that do not constrain the state (element,
    any-element and list query atoms), by the query that spells the state out, and must NOT be found by a query that differs in one
    field; the accelerated path (transpiled _isomorphism.pyx over the encoders of isomorphism.py) and the reference matcher must agree"""
    import iso_pyx
    try:
        iso_pyx.inject()
    except Exception as e:
        ck.unchecked('pyx transpiler (_isomorphism) for the matcher representability sweep', f'{type(e).__name__}: {e}')
        return
    from chython import MoleculeContainer, QueryContainer
    from chython.periodictable import Element, QueryElement, AnyElement, ListElement

    def Q(a):
        q = QueryContainer('')
        q.add_atom(a, 1)
        return q

    n_bad = 0
    for n, sym in enumerate(ORACLE_SYMBOLS, 1):
        cls = Element.from_symbol(sym)
        qcls = QueryElement.from_symbol(sym)
        other = 'C' if sym != 'C' else 'N'
        isos = sorted(cls().isotopes_distribution)
        states = [(iso, 0, False, 0) for iso in isos]
        states += [(None, ch, rad, h) for ch in range(-4, 5) for rad in (False, True) for h in range(5)]
        for iso, ch, rad, h in states:
            m = MoleculeContainer()
            m.add_atom(cls(iso, charge=ch, is_radical=rad), 1)
            m._atoms[1]._implicit_hydrogens = h
            m.flush_cache()
            ck.case(('matcher-state', sym, iso, ch, rad, h))
            probes = [('element query without isotope/hydrogen constraint', lambda: qcls(charge=ch, is_radical=rad), True),
                      ('any-element query', lambda: AnyElement(charge=ch, is_radical=rad), True),
                      ('list query', lambda: ListElement([other, sym], charge=ch, is_radical=rad), True),
                      ('element query spelling the state out', lambda: qcls(iso, charge=ch, is_radical=rad, implicit_hydrogens=h), True),
                      ('element query with another hydrogen count', lambda: qcls(charge=ch, is_radical=rad, implicit_hydrogens=(h + 1) % 5), False),
                      ('element query with another charge', lambda: qcls(charge=ch + 1 if ch < 4 else -4, is_radical=rad), False),
                      ('element query with the other radical flag', lambda: qcls(charge=ch, is_radical=not rad), False)]
            if iso is not None:
                probes.append(('element query with another tabulated isotope', lambda: qcls(next((i for i in isos if i != iso), iso + 1), charge=ch, is_radical=rad), False))
            for what, mk, want in probes:
                res = []
                for cy in (True, False):
                    try:
                        res.append(list(Q(mk()).get_mapping(m, _cython=cy)))
                    except Exception as e:
                        res.append(f'raises {type(e).__name__}: {e}')
                exp = [{1: 1}] if want else []
                if (res[0] != exp or res[1] != exp) and n_bad < 12:
                    n_bad += 1
                    ck.counterexample(f'matcher-state:{what}:{sym}:{iso}:{ch}:{rad}:{h}',
                                      f'{sym} (isotope {iso}, charge {ch}, radical {rad}, hydrogens {h}) vs {what}: the matcher does not represent the state',
                                      {'element': sym, 'isotope': iso, 'charge': ch, 'radical': rad, 'hydrogens': h, 'query': what},
                                      {'accelerated': res[0], 'reference': res[1]}, exp, 'one-atom molecule, state-level expectation',
                                      replay_py=f"import iso_pyx; iso_pyx.inject()\nfrom chython import MoleculeContainer, QueryContainer\nfrom chython.periodictable import Element, QueryElement\n"
                                                f"m=MoleculeContainer(); m.add_atom(Element.from_symbol({sym!r})({iso!r}, charge={ch}, is_radical={rad}), 1); m._atoms[1]._implicit_hydrogens={h}; m.flush_cache()\n"
                                                f"q=QueryContainer(''); q.add_atom(QueryElement.from_symbol({sym!r})(charge={ch}, is_radical={rad}), 1)\nprint(list(q.get_mapping(m)), list(q.get_mapping(m, _cython=False)))")
    ck.count('matcher-state sweep (elements x isotopes, charges x radical x hydrogens; 7-8 queries each, both matchers)')


replay = common.generic_replay


def run(ck):
    ck.trusted += ['translator tools/gen_isolayout.py (Python ast: the per-atom encoder statements of isomorphism.py -> Gallina, fail closed; attribute-to-field mapping in its PRELUDE)',
                   'translator tools/gen_elements.py (Python ast over periodictable/group*.py; regex over the two .pyx tables)',
                   'tools/gen_runtime.py (imports chython under the CachedMethods shim harness/boot.py)',
                   'CPython 3.12.1', 'tools/pyx2py.py (fail-closed .pyx transpiler, for the pack representability sweep)',
                   'harness/iso_pyx.py (fail-closed transpiler of _isomorphism.pyx, for the matcher representability sweep)']
    ck.assumptions += ['generated coq/gen/Elements.v is a faithful copy of the literals in /repo (translator is fail-closed; '
                       'the Python sweep below re-derives every statement from the live classes without the translator)']
    ck.extra['rule'] = ('proof: every statement quantifies over the complete generated table (118 elements x all tabulated isotopes); '
                        'search: same space on the live classes plus charge -4..4 x radical; a case is (element, isotope) or '
                        '(element, charge, radical); all are distinct')
    ck.extra['exhaustive'] = True
    proved = common.standard_proof_steps(ck, translators=['elements', 'runtime', 'isolayout'])
    search(ck)
    search_lookup_entry_points(ck)
    search_pack_states(ck)
    search_variant_symbols(ck)
    search_matcher_states(ck)
    ck.extra['proved'] = proved
