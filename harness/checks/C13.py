"""C13 edits keep derived views coherent; transactions atomic; copies independent.

Theorems (coq/props/C13.v) are about the state-machine model coq/model/Cache.v.  The tie is a correspondence on
operation sequences (exhaustive short ones on seed molecules, long random ones on corpus molecules): the real
MoleculeContainer and the model are driven by the same operations and compared on atoms, bonds, cached keys, `_changed`,
`_backup`, the object-identity partition of all bond slots of all live molecules, raised exception classes and on what
is stale.  The search is independent of the model: every derived attribute is compared with a molecule rebuilt from
scratch, rollback must restore exactly, copies must be independent and editable."""
import itertools
import random

import boot  # noqa
import common
import coqcases
import corpus
from coqfmt import zraw, b, lst, opt, tup

replay = common.generic_replay

# which model the implementation is compared with: 'faithful' = the code with the recorded defects (known_findings.d/C13.json),
# 'fixed' = every proposed repair applied.  Switch to 'fixed' once the fix: commits are in /repo (or give a cfg term, e.g.
# '(mkCfg true true false false false false)' = only delete_*-flush and exit-exn repairs; field order as in coq/model/Cache.v).
MODEL_CFG = 'faithful'

TRACKED = {'not_special_connectivity': 'Knsc', 'rings_count': 'Krc', 'sssr': 'Ksssr', 'atoms_rings': 'Kar',
           'atoms_rings_sizes': 'Kars', 'connected_components': 'Kcc', 'brutto': '(Kplain 1)', 'molecular_charge': '(Kplain 2)',
           'molecular_mass': '(Kplain 3)', 'bonds_count': '(Kplain 4)', 'skin_graph': '(Kplain 5)'}
OTHER = '(Kplain 0)'
ATOM_LOCAL_LABELS = ('_neighbors', '_heteroatoms', '_hybridization', '_explicit_hydrogens')
ATOM_SLOTS = ('_isotope', '_charge', '_is_radical', '_xy', '_implicit_hydrogens', '_explicit_hydrogens', '_stereo',
              '_parsed_mapping', '_neighbors', '_heteroatoms', '_hybridization', '_ring_sizes', '_in_ring')
UNSET = '<unset>'


def exn_name(e):
    for cls, nm in ((KeyError, 'KeyError'), (ValueError, 'ValueError'), (AttributeError, 'AttributeError'), (TypeError, 'TypeError'),
                    (IndexError, 'IndexError')):
        if isinstance(e, cls):
            return nm
    return 'OtherError'


# ---------------------------------------------------------------------------------------------------------------
# independent re-constructions of a molecule (never through mol.copy(), which is under test)

def rebuild(m):
    """a molecule built from scratch with the same atoms (primary data, stereo labels) and bonds (orders, stereo labels) in
    the same insertion orders; every derived value recalculated.  None when the adjacency is not a symmetric aliased one."""
    from chython import MoleculeContainer
    from chython.containers.bonds import Bond
    r = MoleculeContainer()
    for n, a in m._atoms.items():
        e = type(a)(a._isotope, charge=a._charge, is_radical=a._is_radical, x=a._xy.x, y=a._xy.y)
        e._stereo = getattr(a, '_stereo', None)
        r._atoms[n] = e
    new = {}
    for n, row in m._bonds.items():
        if n not in m._atoms:
            return None
        r._bonds[n] = rn = {}
        for k, bd in row.items():
            if k not in m._bonds or n not in m._bonds[k] or m._bonds[k][n] is not bd or k not in m._atoms:
                return None
            if id(bd) not in new:
                new[id(bd)] = Bond(bd._order, stereo=getattr(bd, '_stereo', None))
            rn[k] = new[id(bd)]
    if set(r._bonds) != set(r._atoms):
        return None
    r.fix_structure()
    r.fix_stereo()
    return r


def clone(m):
    """same objects' contents (stored hydrogens and labels included), empty cache"""
    from chython import MoleculeContainer
    r = MoleculeContainer()
    for n, a in m._atoms.items():
        e = object.__new__(type(a))
        for s in ATOM_SLOTS:
            if hasattr(a, s):
                v = getattr(a, s)
                setattr(e, s, set(v) if isinstance(v, set) else v)
        r._atoms[n] = e
    new = {}
    for n, row in m._bonds.items():
        r._bonds[n] = rn = {}
        for k, bd in row.items():
            if id(bd) not in new:
                nb = object.__new__(type(bd))
                for s in ('_order', '_in_ring', '_stereo'):
                    if hasattr(bd, s):
                        setattr(nb, s, getattr(bd, s))
                new[id(bd)] = nb
            rn[k] = new[id(bd)]
    return r


def canon_value(key, v):
    """comparable form of a derived value (sets/dicts without order)"""
    if key in ('sssr',):
        return sorted(tuple(x) for x in v)
    if key == 'atoms_rings':
        return {n: sorted(tuple(x) for x in rs) for n, rs in v.items()}
    if key == 'atoms_rings_sizes':
        return {n: sorted(x) for n, x in v.items()}
    if key in ('not_special_connectivity', 'skin_graph'):
        return {n: sorted(x) for n, x in v.items()}
    if key == 'connected_components':
        return sorted(sorted(c) for c in v)
    if key == 'molecular_mass':
        return round(v, 6)
    if isinstance(v, dict):
        return dict(v)
    return v


def safe_get(m, key):
    try:
        return canon_value(key, getattr(m, key))
    except Exception as e:  # noqa
        return ('raises', type(e).__name__)


# ---------------------------------------------------------------------------------------------------------------
# the live world: current molecule + other live molecules, driven by abstract operations

class StubPattern:
    """stands for a compiled rule pattern with exactly one match {1: n, 2: m} (the matcher is C07's business)"""

    def __init__(self, n, m):
        self.n, self.m = n, m

    def get_mapping(self, mol, **kw):
        yield {1: self.n, 2: self.m}

    def __str__(self):
        return 'stub'


class World:
    def __init__(self, cur, others):
        self.cur = cur
        self.others = list(others)
        self.effective = None
        self.read_raised = 0

    def apply(self, op):
        """returns None or the name of the raised exception class"""
        k = op[0]
        m = self.cur
        self.effective = op
        try:
            if k == 'read':
                # a read may raise in an intermediate state (e.g. brutto while a hydrogen count is None inside a transaction);
                # the model has no failing reads: it is told which attributes were actually stored (self.effective)
                done = []
                for name in op[1]:
                    before = set(m.__dict__)
                    try:
                        if name == 'str':
                            str(m)
                        else:
                            getattr(m, name)
                        done.append(name)
                    except Exception:  # noqa
                        if name == 'str' and any(k2 not in TRACKED for k2 in set(m.__dict__) - before):
                            done.append(name)
                        self.effective = ('read', tuple(done))
                        self.read_raised += 1
                        break
            elif k == 'add_atom':
                from chython.periodictable import Element
                a = Element.from_atomic_number(op[1])(charge=op[2], is_radical=op[3])
                if op[4] is None:
                    m.add_atom(a)
                else:
                    m.add_atom(a, op[4])
            elif k == 'add_bond':
                m.add_bond(op[1], op[2], op[3])
            elif k == 'delete_atom':
                m.delete_atom(op[1])
            elif k == 'delete_bond':
                m.delete_bond(op[1], op[2])
            elif k == 'remap':
                m.remap(dict(op[1]))
            elif k == 'union':
                u = m.union(self.others[0], remap=op[1], copy=op[2])
                if op[2]:
                    self.others.insert(0, u)
            elif k == 'copy':
                self.others.insert(0, m.copy())
            elif k == 'sub':
                try:
                    self.others.insert(0, m.substructure(list(op[1])))
                except Exception as e:
                    # the model keeps the half-made substructure when its fix_structure raises; the implementation drops it
                    raise
            elif k == 'swap':
                if self.others:
                    self.cur, self.others[0] = self.others[0], self.cur
            elif k == 'flush':
                m.flush_cache(keep_sssr=op[1], keep_components=op[2])
            elif k == 'enter':
                m.__enter__()
            elif k == 'exit_ok':
                m.__exit__(None, None, None)
            elif k == 'exit_exn':
                m.__exit__(RuntimeError, RuntimeError(), None)
            elif k == 'set_charge':
                m.atom(op[1]).charge = op[2]
            elif k == 'set_radical':
                m.atom(op[1]).is_radical = op[2]
            elif k == 'patch':
                n, mm, bo, dch = op[1:]
                if n not in m._atoms or mm not in m._atoms:
                    raise KeyError(n)
                m._Standardize__standardize([(StubPattern(n, mm), {1: (dch, None)}, ((1, 2, bo),), [], False)], True)
            elif k == 'set_name':
                m.name = f'n{op[1]}'
            elif k == 'set_meta':
                m.meta[op[1]] = op[2]
            else:
                raise RuntimeError('unknown op ' + repr(op))
        except Exception as e:  # noqa
            return exn_name(e)
        return None

    def live(self):
        return [self.cur] + self.others


def op_term(op):
    k = op[0]
    if k == 'read':
        # the harness reads in a fixed order; the model reads the corresponding keys one by one (see read_ops)
        raise AssertionError
    if k == 'add_atom':
        return f'OAddAtom (mkCore {zraw(op[1])} None {zraw(op[2])} {b(op[3])}) {opt(op[4], zraw)}'
    if k == 'add_bond':
        return f'OAddBond {zraw(op[1])} {zraw(op[2])} {zraw(op[3])}'
    if k == 'delete_atom':
        return f'ODelAtom {zraw(op[1])}'
    if k == 'delete_bond':
        return f'ODelBond {zraw(op[1])} {zraw(op[2])}'
    if k == 'remap':
        return 'ORemap ' + lst([tup(zraw(a), zraw(c)) for a, c in op[1]])
    if k == 'union':
        return f'OUnion {b(op[1])} {b(op[2])}'
    if k == 'copy':
        return 'OCopy'
    if k == 'sub':
        return 'OSub ' + lst(list(op[1]), zraw)
    if k == 'swap':
        return 'OSwap'
    if k == 'flush':
        return f'OFlush {b(op[1])} {b(op[2])}'
    if k == 'enter':
        return 'OEnter'
    if k == 'exit_ok':
        return 'OExitOk'
    if k == 'exit_exn':
        return 'OExitExn'
    if k == 'set_charge':
        return f'OSetCharge {zraw(op[1])} {zraw(op[2])}'
    if k == 'set_radical':
        return f'OSetRadical {zraw(op[1])} {b(op[2])}'
    if k == 'patch':
        return f'OPatch {zraw(op[1])} {zraw(op[2])} {zraw(op[3])} {zraw(op[4])}'
    if k == 'set_name':
        return f'OSetName {zraw(op[1])}'
    if k == 'set_meta':
        return f'OSetMeta {zraw(op[1])} {zraw(op[2])}'
    raise AssertionError(op)


def model_ops(op):
    """the model operations one harness operation stands for (a read of several attributes = several ORead)"""
    if op[0] == 'read':
        return ['ORead ' + (OTHER if name == 'str' else TRACKED[name]) for name in op[1]]
    return [op_term(op)]


def model_key(name):
    return TRACKED.get(name, OTHER)


# ---------------------------------------------------------------------------------------------------------------
# observations

def observe(m):
    """the record compared with the model (Cache.obs) for one live molecule"""
    atoms = [(n, a.atomic_number, a._charge, a._is_radical) for n, a in m._atoms.items()]
    adj = [(n, [(k, bd._order) for k, bd in row.items()]) for n, row in m._bonds.items()]
    keys = sorted({model_key(k) for k in m.__dict__})
    try:
        ch = m._changed
        changed = (1, []) if ch is None else (2, sorted(ch))
    except AttributeError:
        changed = (0, [])
    try:
        backup = 1 if m._backup is None else 2
    except AttributeError:
        backup = 0
    name = None if m._name is None else int(m._name[1:])
    meta = None if m._meta is None else sorted(m._meta.items(), key=lambda kv: list(m._meta).index(kv[0]))
    unlabelled = [(n, k) for n, row in m._bonds.items() for k, bd in row.items() if not hasattr(bd, '_in_ring')]
    stale_h, stale_lab, stale_keys = [], [], []
    r = rebuild(m)
    strict = r is not None
    if r is not None:
        for n, a in m._atoms.items():
            ra = r._atoms[n]
            if getattr(a, '_implicit_hydrogens', UNSET) != ra._implicit_hydrogens:
                stale_h.append(n)
            if any(getattr(a, s, UNSET) != getattr(ra, s) for s in ATOM_LOCAL_LABELS):
                stale_lab.append(n)
        c = clone(m)
        for k in m.__dict__:
            if k in TRACKED and canon_value(k, m.__dict__[k]) != safe_get(c, k):
                stale_keys.append(TRACKED[k])
    return {'atoms': atoms, 'adj': adj, 'keys': keys, 'changed': changed, 'backup': backup, 'name': name, 'meta': meta,
            'unlabelled': unlabelled, 'stale_h': stale_h, 'stale_lab': stale_lab, 'stale_keys': sorted(stale_keys), 'strict': strict}


def obs_term(o):
    zz = lambda p: tup(zraw(p[0]), zraw(p[1]))
    return ('(mkObs ' + lst([f'({zraw(n)}, ({zraw(z)}, {zraw(c)}, {b(r)}))' for n, z, c, r in o['atoms']]) + ' ' +
            lst([tup(zraw(n), lst(row, zz)) for n, row in o['adj']]) + ' ' + lst(o['keys']) + ' ' +
            tup(zraw(o['changed'][0]), lst(o['changed'][1], zraw)) + ' ' + zraw(o['backup']) + ' ' + opt(o['name'], zraw) + ' ' +
            opt(o['meta'], lambda d: lst(d, zz)) + ' ' + lst(o['unlabelled'], zz) + ' ' + lst(o['stale_h'], zraw) + ' ' +
            lst(o['stale_lab'], zraw) + ' ' + lst(o['stale_keys']) + ')')


def identity_partition(world):
    """object identities of all bond slots of all live molecules (and of their transaction backups), renamed by first occurrence"""
    seen = {}
    out = []
    for m in world.live():
        mols = [m]
        try:
            if m._backup is not None:
                mols.append(m._backup)
        except AttributeError:
            pass
        for x in mols:
            for row in x._bonds.values():
                for bd in row.values():
                    out.append(seen.setdefault(id(bd), len(seen)))
    return out


def atoms_shared(world):
    """atom objects must belong to exactly one live molecule (the model holds atoms by value)"""
    seen = {}
    for i, m in enumerate(world.live()):
        mols = [m]
        try:
            if m._backup is not None:
                mols.append(m._backup)
        except AttributeError:
            pass
        for j, x in enumerate(mols):
            for n, a in x._atoms.items():
                if id(a) in seen and seen[id(a)] != (i, j):
                    return (seen[id(a)], (i, j), n)
                seen[id(a)] = (i, j)
    return None


def mol_spec(m):
    """arguments of Cache.load for a molecule: primary data only"""
    atoms = lst([tup(zraw(n), f'mkCore {zraw(a.atomic_number)} None {zraw(a._charge)} {b(a._is_radical)}') for n, a in m._atoms.items()])
    bonds = lst([tup(zraw(n), lst([tup(zraw(k), zraw(bd._order)) for k, bd in row.items()])) for n, row in m._bonds.items()])
    return atoms + ' ' + bonds


def normalise(m):
    """the state Cache.load describes: cache flushed, everything recalculated, registries of fix_stereo read"""
    m.flush_cache()
    m.fix_structure()
    m.fix_stereo()
    return m


def make(smi):
    from chython import smiles
    m = smiles(smi)
    if any(bd._order == 4 for *_, bd in m.bonds()):
        m.kekule()
    return normalise(m)


# ---------------------------------------------------------------------------------------------------------------
# correspondence: exhaustive short sequences on seed molecules, random long ones on corpus molecules

READ_STR = ('read', ('atoms_rings_sizes', 'str'))        # str(mol) after the ring data: which keys appear is then determined
SEEDS = [
    # (current molecule, other live molecule, alphabet)
    ('C1CC1C', 'CN', [READ_STR, ('read', ('brutto',)), ('add_atom', 7, 0, False, None), ('add_bond', 2, 4, 1), ('delete_bond', 1, 2),
                      ('delete_atom', 4), ('copy',), ('swap',), ('enter',), ('exit_ok',), ('exit_exn',), ('flush', True, True)]),
    ('CCO', 'CN', [READ_STR, ('read', ('connected_components', 'molecular_mass')), ('add_atom', 6, 0, False, None), ('add_bond', 1, 3, 1),
                   ('delete_atom', 3), ('set_charge', 3, -1), ('enter',), ('exit_ok',), ('exit_exn',), ('remap', ((1, 9),)),
                   ('sub', (1, 2)), ('swap',)]),
    ('C=CO.[Cu]', 'CN', [READ_STR, ('read', ('connected_components', 'rings_count')), ('add_bond', 3, 4, 8), ('delete_bond', 3, 4),
                         ('add_bond', 1, 3, 1), ('patch', 1, 2, 1, 0), ('patch', 3, 4, 8, 0), ('union', True, False), ('union', True, True),
                         ('swap',), ('delete_atom', 2), ('flush', True, False)]),
]
# extra operations exercised at depth 2 on every seed (malformed arguments, remaining operation kinds)
EXTRA = [('add_atom', 6, 1, False, 2), ('add_atom', 8, 0, True, 7), ('add_bond', 1, 1, 1), ('add_bond', 1, 99, 1), ('add_bond', 1, 2, 2),
         ('add_bond', 1, 3, 5), ('delete_atom', 99), ('delete_bond', 1, 99), ('delete_bond', 99, 1), ('remap', ((1, 2),)),
         ('remap', ((1, 2), (2, 1))), ('remap', ((1, 7), (2, 7))), ('remap', ((50, 60),)), ('union', False, False), ('union', False, True),
         ('sub', ()), ('sub', (1, 77)), ('sub', (2, 1, 3)), ('flush', False, False), ('flush', False, True), ('set_charge', 1, 5),
         ('set_charge', 99, 0), ('set_radical', 2, True), ('patch', 1, 2, 2, 1), ('patch', 1, 3, 1, 0), ('patch', 1, 2, 8, 0),
         ('patch', 1, 99, 1, 0), ('set_name', 3), ('set_meta', 1, 2), ('set_meta', 2, 5), ('read', ('sssr',)), ('read', ('rings_count',)),
         ('read', ('bonds_count', 'skin_graph', 'molecular_charge')), ('enter',), ('exit_exn',), ('exit_ok',), ('copy',), ('swap',)]


def fresh_world(cur, other):
    return World(make(cur), [make(other)])


def fingerprint(world):
    """cheap complete picture of the stored state of every live molecule (no recalculation)"""
    out = []
    for m in world.live():
        out.append(([(n, a.atomic_number, a._charge, a._is_radical) + tuple(repr(getattr(a, s, UNSET)) for s in ATOM_SLOTS[4:])
                     for n, a in m._atoms.items()],
                    [(n, [(k, bd._order, getattr(bd, '_in_ring', UNSET), id(bd)) for k, bd in row.items()]) for n, row in m._bonds.items()],
                    sorted(m.__dict__), repr(getattr(m, '_changed', UNSET)), getattr(m, '_backup', UNSET) is None, m._name, repr(m._meta)))
    return out


def run_ops(world, ops):
    """apply the operations; returns (exception names, strict, effective operations) - strict is False once an exception was
    raised after partial effects (what is stale then depends on the iteration order inside the failed call)"""
    exns = []
    eff = []
    strict = True
    for op in ops:
        before = fingerprint(world)
        e = world.apply(op)
        if e is not None and strict and fingerprint(world) != before:
            strict = False
        exns.append(e)
        eff.append(world.effective)
    return exns, strict, eff


def exn_term(e):
    return 'None' if e is None else f'(Some {e})'


class Corr:
    def __init__(self, ck):
        self.ck = ck
        self.cases = []
        self.meta = []
        self.seed_defs = []
        self.shared_atoms = []

    def seed_def(self, name, cur, other):
        self.seed_defs.append(f'Definition {name} := Eval vm_compute in (init {mol_spec(cur)} {mol_spec(other)}).')

    def final_case(self, seedname, ops, exns, strict, world, tag):
        obs = [observe(m) for m in world.live()]
        st = strict and all(o['strict'] for o in obs)
        mops = [t for op in ops for t in model_ops(op)]
        mexn = []
        for op, e in zip(ops, exns):
            k = len(model_ops(op))
            mexn += [None] * (k - 1) + [e]       # reads never raise here
        self.cases.append(f'check_case cfg0 {seedname} {lst(mops)} {lst(mexn, exn_term)} {b(st)} {obs_term(obs[0])} '
                          f'{lst(obs[1:], obs_term)} {lst(identity_partition(world), zraw)}')
        self.meta.append((tag, ops, exns))
        sh = atoms_shared(world)
        if sh:
            self.shared_atoms.append((tag, ops, sh))


def exhaustive_sequences(ck, si, alphabet, depth, depth_extra):
    seqs = [()]
    for d in range(1, depth + 1):
        seqs += list(itertools.product(alphabet, repeat=d))
    # malformed arguments / remaining operation kinds
    pool = alphabet + EXTRA
    if depth_extra >= 1:
        seqs += [(e,) for e in EXTRA]
    if depth_extra >= 2:
        seqs += [(a, e) for a in pool for e in EXTRA] + [(e, a) for e in EXTRA for a in alphabet]
    if depth_extra >= 3:
        rng = random.Random(f'{ck.seed}:c13x:{si}')
        seqs += [tuple(rng.choice(pool) for _ in range(3)) for _ in range(1500)]
    return list(dict.fromkeys(seqs))


def corr_exhaustive(cr, depth, depth_extra):
    ck = cr.ck
    for si, (cur, other, alphabet) in enumerate(SEEDS):
        name = f'seed{si}'
        w0 = fresh_world(cur, other)
        cr.seed_def(name, w0.cur, w0.others[0])
        for ops in exhaustive_sequences(ck, si, alphabet, depth, depth_extra):
            w = fresh_world(cur, other)
            exns, strict, eff = run_ops(w, ops)
            cr.final_case(name, eff, exns, strict, w, name)
            ck.count('corr:read-raised', w.read_raised)
            ck.case((name, ops), nontrivial=True)
            ck.count(f'corr:exhaustive:len={len(ops)}')
            for e in exns:
                ck.count('corr:step:' + (e or 'ok'))


def corr_run(cr, name='c13'):
    extra = f'Import ListNotations.\nOpen Scope Z_scope.\nDefinition cfg0 := {MODEL_CFG}.\n' + '\n'.join(cr.seed_defs)
    return coqcases.run_cases(name, 'Cache', cr.cases, extra=extra, shard=300)
