"""C13 edits keep derived views coherent; transactions atomic; copies independent.

Theorems (coq/props/C13.v) are about the state-machine model coq/model/Cache.v.  The tie is a correspondence on
operation sequences (exhaustive short ones on seed molecules, long random ones on corpus molecules): the real
MoleculeContainer and the model are driven by the same operations and compared on atoms, bonds, cached keys, `_changed`,
`_backup`, the object-identity partition of all bond slots of all live molecules, raised exception classes and on what
is stale.  The search is independent of the model: every derived attribute is compared with a molecule rebuilt from
scratch, rollback must restore exactly, copies must be independent and editable."""
import itertools
import random

import boot  # noqa
import common
import coqcases
import corpus
from coqfmt import zraw, b, lst, opt, tup

replay = common.generic_replay

# the model mirrors /repo after the fix: commits recorded in known_findings.d/C13.json (all status "fixed": they suppress nothing;
# should one of those defects return, classify() names it by its old key and the check reports a VIOLATION)

TRACKED = {'not_special_connectivity': 'Knsc', 'rings_count': 'Krc', 'sssr': 'Ksssr', 'atoms_rings': 'Kar',
           'atoms_rings_sizes': 'Kars', 'connected_components': 'Kcc', 'brutto': '(Kplain 1)', 'molecular_charge': '(Kplain 2)',
           'molecular_mass': '(Kplain 3)', 'bonds_count': '(Kplain 4)', 'skin_graph': '(Kplain 5)'}
OTHER = '(Kplain 0)'
ATOM_LOCAL_LABELS = ('_neighbors', '_heteroatoms', '_hybridization', '_explicit_hydrogens')
ATOM_SLOTS = ('_isotope', '_charge', '_is_radical', '_xy', '_implicit_hydrogens', '_explicit_hydrogens', '_stereo',
              '_parsed_mapping', '_neighbors', '_heteroatoms', '_hybridization', '_ring_sizes', '_in_ring')
UNSET = '<unset>'


def exn_name(e):
    for cls, nm in ((KeyError, 'KeyError'), (ValueError, 'ValueError'), (AttributeError, 'AttributeError'), (TypeError, 'TypeError'),
                    (IndexError, 'IndexError')):
        if isinstance(e, cls):
            return nm
    return 'OtherError'


# ---------------------------------------------------------------------------------------------------------------
# independent re-constructions of a molecule (never through mol.copy(), which is under test)

def rebuild(m):
    """a molecule built from scratch with the same atoms (primary data, stereo labels) and bonds (orders, stereo labels) in
    the same insertion orders; every derived value recalculated.  None when the adjacency is not a symmetric aliased one."""
    from chython import MoleculeContainer
    from chython.containers.bonds import Bond
    r = MoleculeContainer()
    for n, a in m._atoms.items():
        e = type(a)(a._isotope, charge=a._charge, is_radical=a._is_radical, x=a._xy.x, y=a._xy.y)
        e._stereo = getattr(a, '_stereo', None)
        r._atoms[n] = e
    new = {}
    for n, row in m._bonds.items():
        if n not in m._atoms:
            return None
        r._bonds[n] = rn = {}
        for k, bd in row.items():
            if k not in m._bonds or n not in m._bonds[k] or m._bonds[k][n] is not bd or k not in m._atoms:
                return None
            if id(bd) not in new:
                new[id(bd)] = Bond(bd._order, stereo=getattr(bd, '_stereo', None))
            rn[k] = new[id(bd)]
    if set(r._bonds) != set(r._atoms):
        return None
    r.fix_structure()
    r.fix_stereo()
    return r


def clone(m):
    """same objects' contents (stored hydrogens and labels included), empty cache"""
    from chython import MoleculeContainer
    r = MoleculeContainer()
    for n, a in m._atoms.items():
        e = object.__new__(type(a))
        for s in ATOM_SLOTS:
            if hasattr(a, s):
                v = getattr(a, s)
                setattr(e, s, set(v) if isinstance(v, set) else v)
        r._atoms[n] = e
    new = {}
    for n, row in m._bonds.items():
        r._bonds[n] = rn = {}
        for k, bd in row.items():
            if id(bd) not in new:
                nb = object.__new__(type(bd))
                for s in ('_order', '_in_ring', '_stereo'):
                    if hasattr(bd, s):
                        setattr(nb, s, getattr(bd, s))
                new[id(bd)] = nb
            rn[k] = new[id(bd)]
    return r


def canon_value(key, v):
    """comparable form of a derived value (sets/dicts without order)"""
    if key in ('sssr',):
        return sorted(tuple(x) for x in v)
    if key == 'atoms_rings':
        return {n: sorted(tuple(x) for x in rs) for n, rs in v.items()}
    if key == 'atoms_rings_sizes':
        return {n: sorted(x) for n, x in v.items()}
    if key in ('not_special_connectivity', 'skin_graph'):
        return {n: sorted(x) for n, x in v.items()}
    if key == 'connected_components':
        return sorted(sorted(c) for c in v)
    if key == 'molecular_mass':
        return round(v, 6)
    if isinstance(v, dict):
        return dict(v)
    return v


def safe_get(m, key):
    try:
        return canon_value(key, getattr(m, key))
    except Exception as e:  # noqa
        return ('raises', type(e).__name__)


# ---------------------------------------------------------------------------------------------------------------
# the live world: current molecule + other live molecules, driven by abstract operations

class StubPattern:
    """stands for a compiled rule pattern with exactly one match {1: n, 2: m} (the matcher is C07's business)"""

    def __init__(self, n, m):
        self.n, self.m = n, m

    def get_mapping(self, mol, **kw):
        yield {1: self.n, 2: self.m}

    def __str__(self):
        return 'stub'


class World:
    def __init__(self, cur, others):
        self.cur = cur
        self.others = list(others)
        self.effective = None
        self.read_raised = 0

    def apply(self, op):
        """returns None or the name of the raised exception class"""
        k = op[0]
        m = self.cur
        self.effective = op
        try:
            if k == 'read':
                # a read may raise in an intermediate state (e.g. brutto while a hydrogen count is None inside a transaction);
                # the model has no failing reads: it is told which attributes were actually stored (self.effective)
                done = []
                for name in op[1]:
                    before = set(m.__dict__)
                    if name == 'all_other':
                        # str and every untracked derived attribute the search looks at; failures are swallowed one by one
                        for x in ('str',) + UNTRACKED_DERIVED:
                            try:
                                str(m) if x == 'str' else getattr(m, x)
                            except Exception:  # noqa
                                pass
                        if any(k2 not in TRACKED for k2 in m.__dict__):
                            done.append(name)
                        continue
                    try:
                        if name == 'str':
                            str(m)
                        else:
                            getattr(m, name)
                        done.append(name)
                    except Exception:  # noqa
                        if name == 'str' and any(k2 not in TRACKED for k2 in set(m.__dict__) - before):
                            done.append(name)
                        self.read_raised += 1
                self.effective = ('read', tuple(done))
            elif k == 'add_atom':
                from chython.periodictable import Element
                a = Element.from_atomic_number(op[1])(charge=op[2], is_radical=op[3])
                if op[4] is None:
                    m.add_atom(a)
                else:
                    m.add_atom(a, op[4])
            elif k == 'add_bond':
                m.add_bond(op[1], op[2], op[3])
            elif k == 'delete_atom':
                m.delete_atom(op[1])
            elif k == 'delete_bond':
                m.delete_bond(op[1], op[2])
            elif k == 'remap':
                m.remap(dict(op[1]))
            elif k == 'union':
                u = m.union(self.others[0], remap=op[1], copy=op[2])
                if op[2]:
                    self.others.insert(0, u)
            elif k == 'copy':
                self.others.insert(0, m.copy())
            elif k == 'sub':
                try:
                    self.others.insert(0, m.substructure(list(op[1])))
                except Exception as e:
                    # the model keeps the half-made substructure when its fix_structure raises; the implementation drops it
                    raise
            elif k == 'subh':
                self.others.insert(0, m.substructure(list(op[1]), recalculate_hydrogens=False))
            elif k == 'and':
                self.others.insert(0, m & list(op[1]))
            elif k == 'minus':
                self.others.insert(0, m - list(op[1]))
            elif k == 'aug':
                self.others.insert(0, m.augmented_substructure(list(op[1]), deep=op[2]))
            elif k == 'split':
                parts = m.split()
                pos = {n: i for i, n in enumerate(m._atoms)}
                for part in sorted(parts, key=lambda x: min(pos[n] for n in x._atoms)):      # components in the order of their first atom
                    self.others.insert(0, part)
            elif k == 'swap':
                if self.others:
                    self.cur, self.others[0] = self.others[0], self.cur
            elif k == 'flush':
                m.flush_cache(keep_sssr=op[1], keep_components=op[2])
            elif k == 'enter':
                m.__enter__()
            elif k == 'exit_ok':
                m.__exit__(None, None, None)
            elif k == 'exit_exn':
                m.__exit__(RuntimeError, RuntimeError(), None)
            elif k == 'set_charge':
                m.atom(op[1]).charge = op[2]
            elif k == 'set_radical':
                m.atom(op[1]).is_radical = op[2]
            elif k == 'patch':
                n, mm, bo, dch = op[1:]
                if n == mm:
                    raise ValueError('a match maps distinct pattern atoms to distinct atoms')      # guard of the stub
                if n not in m._atoms or mm not in m._atoms:
                    raise KeyError(n)
                # what Standardize.standardize() does with one rule that matches once
                log, fixed = m._Standardize__standardize([(StubPattern(n, mm), {1: (dch, None)}, ((1, 2, bo),), [], False)], True)
                if fixed:
                    m.fix_stereo()
            elif k == 'explicify':          # search only (not modelled): in-place standardisation with a selective flush
                m.explicify_hydrogens()
            elif k == 'implicify':
                m.implicify_hydrogens()
            elif k == 'set_name':
                m.name = f'n{op[1]}'
            elif k == 'set_meta':
                m.meta[op[1]] = op[2]
            else:
                raise RuntimeError('unknown op ' + repr(op))
        except Exception as e:  # noqa
            return exn_name(e)
        return None

    def live(self):
        return [self.cur] + self.others


def op_term(op):
    k = op[0]
    if k == 'read':
        # the harness reads in a fixed order; the model reads the corresponding keys one by one (see read_ops)
        raise AssertionError
    if k == 'add_atom':
        return f'OAddAtom (mkCore {zraw(op[1])} None {zraw(op[2])} {b(op[3])}) {opt(op[4], zraw)}'
    if k == 'add_bond':
        return f'OAddBond {zraw(op[1])} {zraw(op[2])} {zraw(op[3])}'
    if k == 'delete_atom':
        return f'ODelAtom {zraw(op[1])}'
    if k == 'delete_bond':
        return f'ODelBond {zraw(op[1])} {zraw(op[2])}'
    if k == 'remap':
        return 'ORemap ' + lst([tup(zraw(a), zraw(c)) for a, c in op[1]])
    if k == 'union':
        return f'OUnion {b(op[1])} {b(op[2])}'
    if k == 'copy':
        return 'OCopy'
    if k == 'sub':
        return 'OSub ' + lst(list(op[1]), zraw)
    if k == 'subh':
        return 'OSubH ' + lst(list(op[1]), zraw)
    if k == 'and':
        return 'OAnd ' + lst(list(op[1]), zraw)
    if k == 'minus':
        return 'OMinus ' + lst(list(op[1]), zraw)
    if k == 'aug':
        return 'OAug ' + lst(list(op[1]), zraw) + f' {int(op[2])}%nat'
    if k == 'split':
        return 'OSplit'
    if k == 'swap':
        return 'OSwap'
    if k == 'flush':
        return f'OFlush {b(op[1])} {b(op[2])}'
    if k == 'enter':
        return 'OEnter'
    if k == 'exit_ok':
        return 'OExitOk'
    if k == 'exit_exn':
        return 'OExitExn'
    if k == 'set_charge':
        return f'OSetCharge {zraw(op[1])} {zraw(op[2])}'
    if k == 'set_radical':
        return f'OSetRadical {zraw(op[1])} {b(op[2])}'
    if k == 'patch':
        return f'OPatch {zraw(op[1])} {zraw(op[2])} {zraw(op[3])} {zraw(op[4])}'
    if k == 'set_name':
        return f'OSetName {zraw(op[1])}'
    if k == 'set_meta':
        return f'OSetMeta {zraw(op[1])} {zraw(op[2])}'
    raise AssertionError(op)


def model_ops(op):
    """the model operations one harness operation stands for (a read of several attributes = several ORead)"""
    if op[0] == 'read':
        return ['ORead ' + (OTHER if name in ('str', 'all_other') else TRACKED[name]) for name in op[1]]
    return [op_term(op)]


def model_key(name):
    return TRACKED.get(name, OTHER)


# ---------------------------------------------------------------------------------------------------------------
# observations

def observe(m):
    """the record compared with the model (Cache.obs) for one live molecule"""
    atoms = [(n, a.atomic_number, a._charge, a._is_radical) for n, a in m._atoms.items()]
    adj = [(n, [(k, bd._order) for k, bd in row.items()]) for n, row in m._bonds.items()]
    keys = sorted({model_key(k) for k in m.__dict__})
    try:
        ch = m._changed
        changed = (1, []) if ch is None else (2, sorted(ch))
    except AttributeError:
        changed = (0, [])
    try:
        backup = 1 if m._backup is None else 2
    except AttributeError:
        backup = 0
    name = None if m._name is None else int(m._name[1:])
    meta = None if m._meta is None else sorted(m._meta.items(), key=lambda kv: list(m._meta).index(kv[0]))
    unlabelled = [(n, k) for n, row in m._bonds.items() for k, bd in row.items() if not hasattr(bd, '_in_ring')]
    stale_h, stale_lab, stale_keys = [], [], []
    r = rebuild(m)
    strict = r is not None
    if r is not None:
        for n, a in m._atoms.items():
            ra = r._atoms[n]
            if getattr(a, '_implicit_hydrogens', UNSET) != ra._implicit_hydrogens:
                stale_h.append(n)
            if any(getattr(a, s, UNSET) != getattr(ra, s) for s in ATOM_LOCAL_LABELS):
                stale_lab.append(n)
        c = clone(m)
        for k in m.__dict__:
            if k in TRACKED and canon_value(k, m.__dict__[k]) != safe_get(c, k):
                stale_keys.append(TRACKED[k])
    return {'atoms': atoms, 'adj': adj, 'keys': keys, 'changed': changed, 'backup': backup, 'name': name, 'meta': meta,
            'unlabelled': unlabelled, 'stale_h': stale_h, 'stale_lab': stale_lab, 'stale_keys': sorted(stale_keys), 'strict': strict}


def obs_term(o):
    zz = lambda p: tup(zraw(p[0]), zraw(p[1]))
    return ('\x02(mkObs ' + lst([f'({zraw(n)}, ({zraw(z)}, {zraw(c)}, {b(r)}))' for n, z, c, r in o['atoms']]) + ' ' +
            lst([tup(zraw(n), lst(row, zz)) for n, row in o['adj']]) + ' ' + lst(o['keys']) + ' ' +
            tup(zraw(o['changed'][0]), lst(o['changed'][1], zraw)) + ' ' + zraw(o['backup']) + ' ' + opt(o['name'], zraw) + ' ' +
            opt(o['meta'], lambda d: lst(d, zz)) + ' ' + lst(o['unlabelled'], zz) + ' ' + lst(o['stale_h'], zraw) + ' ' +
            lst(o['stale_lab'], zraw) + ' ' + lst(o['stale_keys']) + ')\x03')


def identity_partition(world):
    """object identities of all bond slots of all live molecules (and of their transaction backups), renamed by first occurrence"""
    seen = {}
    out = []
    for m in world.live():
        mols = [m]
        try:
            if m._backup is not None:
                mols.append(m._backup)
        except AttributeError:
            pass
        for x in mols:
            for row in x._bonds.values():
                for bd in row.values():
                    out.append(seen.setdefault(id(bd), len(seen)))
    return out


def atoms_shared(world):
    """atom objects must belong to exactly one live molecule (the model holds atoms by value)"""
    seen = {}
    for i, m in enumerate(world.live()):
        mols = [m]
        try:
            if m._backup is not None:
                mols.append(m._backup)
        except AttributeError:
            pass
        for j, x in enumerate(mols):
            for n, a in x._atoms.items():
                if id(a) in seen and seen[id(a)] != (i, j):
                    return (seen[id(a)], (i, j), n)
                seen[id(a)] = (i, j)
    return None


def mol_spec(m):
    """arguments of Cache.load for a molecule: primary data only"""
    atoms = lst([tup(zraw(n), f'mkCore {zraw(a.atomic_number)} None {zraw(a._charge)} {b(a._is_radical)}') for n, a in m._atoms.items()])
    bonds = lst([tup(zraw(n), lst([tup(zraw(k), zraw(bd._order)) for k, bd in row.items()])) for n, row in m._bonds.items()])
    return atoms + ' ' + bonds


def normalise(m):
    """the state Cache.load describes: cache flushed, everything recalculated, registries of fix_stereo read"""
    m.flush_cache()
    m.fix_structure()
    m.fix_stereo()
    return m


def make(smi):
    """'CN@10' = CN with every atom number shifted by 10 (numbers disjoint from the other seed: union then takes its no-remap branch)"""
    from chython import smiles
    if smi.startswith('raw:'):          # exactly as the reader leaves it (its stereo labels have not been through fix_stereo again)
        return smiles(smi[4:])
    off = 0
    if '@@' not in smi.rsplit('@', 1)[-1] and smi.rsplit('@', 1)[-1].isdigit():
        smi, off = smi.rsplit('@', 1)[0], int(smi.rsplit('@', 1)[1])
    m = smiles(smi)
    if off:
        m.remap({n: n + off for n in list(m._atoms)})
    if any(bd._order == 4 for *_, bd in m.bonds()):
        m.kekule()
    return normalise(m)


# ---------------------------------------------------------------------------------------------------------------
# correspondence: exhaustive short sequences on seed molecules, random long ones on corpus molecules

READ_STR = ('read', ('atoms_rings_sizes', 'str'))        # str(mol) after the ring data: which keys appear is then determined
SEEDS = [
    # (current molecule, other live molecule, alphabet)
    ('C1CC1C', 'CN', [READ_STR, ('read', ('brutto',)), ('add_atom', 7, 0, False, None), ('add_bond', 2, 4, 1), ('delete_bond', 1, 2),
                      ('delete_atom', 4), ('copy',), ('swap',), ('enter',), ('exit_ok',), ('exit_exn',), ('flush', True, True)]),
    ('CCO', 'CN', [READ_STR, ('read', ('connected_components', 'molecular_mass')), ('add_atom', 6, 0, False, None), ('add_bond', 1, 3, 1),
                   ('delete_atom', 3), ('set_charge', 3, -1), ('enter',), ('exit_ok',), ('exit_exn',), ('remap', ((1, 9),)),
                   ('sub', (1, 2)), ('swap',)]),
    ('C=CO.[Cu]', 'CN', [READ_STR, ('read', ('connected_components', 'rings_count')), ('add_bond', 3, 4, 8), ('delete_bond', 3, 4),
                         ('add_bond', 1, 3, 1), ('patch', 1, 2, 1, 0), ('patch', 3, 4, 8, 0), ('union', True, False), ('union', True, True),
                         ('swap',), ('delete_atom', 2), ('flush', True, False)]),
    # the other molecule has atom numbers 11, 12: union takes the branch without renumbering; the union is edited, the source observed
    ('CCO', 'CN@10', [READ_STR, ('union', False, False), ('union', True, True), ('add_bond', 3, 11, 1), ('delete_atom', 11), ('delete_bond', 11, 12),
                      ('set_charge', 12, 1), ('enter',), ('exit_ok',), ('swap',), ('split',)], 'light'),
]
# extra operations exercised at depth 2 on every seed (malformed arguments, remaining operation kinds)
EXTRA = [('add_atom', 6, 1, False, 2), ('add_atom', 8, 0, True, 7), ('add_bond', 1, 1, 1), ('add_bond', 1, 99, 1), ('add_bond', 1, 2, 2),
         ('add_bond', 1, 3, 5), ('delete_atom', 99), ('delete_bond', 1, 99), ('delete_bond', 99, 1), ('remap', ((1, 2),)),
         ('remap', ((1, 2), (2, 1))), ('remap', ((1, 7), (2, 7))), ('remap', ((50, 60),)), ('union', False, False), ('union', False, True),
         ('sub', ()), ('sub', (1, 77)), ('sub', (2, 1, 3)), ('and', (1, 2)), ('and', ()), ('minus', (1,)), ('minus', (1, 2, 3, 4)), ('minus', (77,)),
         ('minus', ()), ('split',), ('subh', (1, 2)), ('subh', ()), ('subh', (1, 77)), ('subh', (1, 2, 3, 4)), ('aug', (1,), 1), ('aug', (1,), 3), ('aug', (2,), 0), ('aug', (), 1), ('aug', (1, 77), 1), ('flush', False, False), ('flush', False, True), ('set_charge', 1, 5),
         ('set_charge', 99, 0), ('set_radical', 2, True), ('patch', 1, 2, 2, 1), ('patch', 1, 3, 1, 0), ('patch', 1, 2, 8, 0),
         ('patch', 1, 99, 1, 0), ('set_name', 3), ('set_meta', 1, 2), ('set_meta', 2, 5), ('read', ('sssr',)), ('read', ('rings_count',)),
         ('read', ('bonds_count', 'skin_graph', 'molecular_charge')), ('enter',), ('exit_exn',), ('exit_ok',), ('copy',), ('swap',)]


def fresh_world(cur, other):
    return World(make(cur), [make(other)])


def adjacency_ok(m):
    """keys of _bonds == keys of _atoms, symmetric, both directions hold the same object, no loops"""
    if list(m._bonds) != list(m._atoms):
        return False
    for n, row in m._bonds.items():
        for k, bd in row.items():
            if k == n or k not in m._bonds or n not in m._bonds[k] or m._bonds[k][n] is not bd:
                return False
    return True


def corrupt(world):
    return not all(adjacency_ok(m) for m in world.live())


def fingerprint(world):
    """cheap complete picture of the stored state of every live molecule (no recalculation)"""
    out = []
    for m in world.live():
        out.append(([(n, a.atomic_number, a._charge, a._is_radical) + tuple(repr(getattr(a, s, UNSET)) for s in ATOM_SLOTS[4:])
                     for n, a in m._atoms.items()],
                    [(n, [(k, bd._order, getattr(bd, '_in_ring', UNSET), id(bd)) for k, bd in row.items()]) for n, row in m._bonds.items()],
                    sorted(m.__dict__), repr(getattr(m, '_changed', UNSET)), getattr(m, '_backup', UNSET) is None, m._name, repr(m._meta)))
    return out


def run_ops(world, ops, hook=None):
    """apply the operations; returns (exception names, strict, effective operations, dead) - strict is False once an exception
    was raised after partial effects (what is stale then depends on the iteration order inside the failed call); dead = some
    PROPER prefix left a molecule with a broken adjacency (nothing is compared on such objects beyond that step)"""
    exns = []
    eff = []
    strict = True
    dead = False
    for i, op in enumerate(ops):
        if not strict and not dead and corrupt(world):
            dead = True
        before = fingerprint(world)
        if hook:
            hook.before(world, i, op)
        e = world.apply(op)
        if e is not None and strict and fingerprint(world) != before:
            strict = False
        if hook:
            hook.after(world, i, op, e)
        exns.append(e)
        eff.append(world.effective)
    return exns, strict, eff, dead


def exn_term(e):
    return 'None' if e is None else f'(Some {e})'


class Corr:
    def __init__(self, ck):
        self.ck = ck
        self.cases = []
        self.meta = []
        self.seed_defs = []
        self.shared_atoms = []

    def seed_def(self, name, cur, other):
        self.seed_defs.append(f'Definition {name} := Eval vm_compute in (init {mol_spec(cur)} {mol_spec(other)}).')

    def final_case(self, seedname, ops, exns, strict, world, tag):
        obs = [observe(m) for m in world.live()]
        st = strict and all(o['strict'] for o in obs)
        mops = [t for op in ops for t in model_ops(op)]
        mexn = []
        for op, e in zip(ops, exns):
            mexn += [None] * len(model_ops(op)) if op[0] == 'read' else [e]       # the model has no failing reads
        self.cases.append(f'check_case {seedname} {lst(mops)} {lst(mexn, exn_term)} {b(st)} {obs_term(obs[0])} '
                          f'{lst(obs[1:], obs_term)} {lst(identity_partition(world), zraw)}')
        self.meta.append((tag, ops, exns))
        sh = atoms_shared(world)
        if sh:
            self.shared_atoms.append((tag, ops, sh))


def exhaustive_sequences(ck, si, alphabet, depth, depth_extra, light=False):
    seqs = [()]
    for d in range(1, depth + 1):
        seqs += list(itertools.product(alphabet, repeat=d))
    # malformed arguments / remaining operation kinds
    pool = alphabet + EXTRA
    if light:                   # a seed added for one mechanism: its own alphabet exhaustively, the remaining operations once
        depth_extra = min(depth_extra, 1)
    if depth_extra >= 1:
        seqs += [(e,) for e in EXTRA]
    quick = ck.tier == 'quick'
    if depth_extra >= 2:
        seqs += [(a, e) for a in (alphabet if quick else pool) for e in EXTRA] + [(e, a) for e in EXTRA for a in alphabet]
    if depth_extra >= 3:
        rng = random.Random(f'{ck.seed}:c13x:{si}')
        seqs += [tuple(rng.choice(pool) for _ in range(3)) for _ in range(300 if quick else 1000)]
    return list(dict.fromkeys(seqs))


def explore_exhaustive(cr, depth, depth_extra, do_search=True):
    """every sequence is run ONCE on the real code; the model is compared on its final state (all prefixes are sequences of
    their own) and the search oracles look at the same run"""
    ck = cr.ck
    for si, (cur, other, alphabet, *flags) in enumerate(SEEDS):
        name = f'seed{si}'
        w0 = fresh_world(cur, other)
        cr.seed_def(name, w0.cur, w0.others[0])
        status = {}

        def visit(ops):
            if ops in status:
                return
            if ops:
                visit(ops[:-1])
            w = fresh_world(cur, other)
            hook = SearchHook() if do_search else None
            exns, strict, eff, dead = run_ops(w, ops, hook)
            ck.count('corr:read-raised', w.read_raised)
            if dead:
                ck.count('corr:skipped-after-broken-adjacency')
                status[ops] = 'downstream'
                return
            cr.final_case(name, eff, exns, strict, w, f'{name}:{cur}|{other}')
            ck.case((name, ops), nontrivial=True)
            ck.count(f'corr:exhaustive:len={len(ops)}')
            for e in exns:
                ck.count('corr:step:' + (e or 'ok'))
            if not do_search:
                status[ops] = 'clean'
                return
            if ops and status[ops[:-1]] != 'clean':
                status[ops] = 'downstream'
                ck.count('search:downstream-of-an-earlier-failure')
                return
            hf = [f for f in hook.findings if f[0] == len(ops) - 1]
            ff = final_findings(w, hook)
            if hf or ff:
                status[ops] = 'bad'
                report(ck, cur, other, list(ops), hf, ff, 'exhaustive')
            else:
                status[ops] = 'clean'
                ck.count('search:clean-sequences')

        for ops in exhaustive_sequences(ck, si, alphabet, depth, depth_extra, light='light' in flags):
            visit(ops)


def corr_run(cr, name='c13', shard=300):
    """observation terms that occur often (a molecule untouched by a history) are defined once and named: elaborating the
    list literal of cases, not evaluating it, is what takes the time"""
    import re
    from collections import Counter
    pat = re.compile('\x02(.*?)\x03', re.S)
    cnt = Counter(m for c in cr.cases for m in pat.findall(c))
    names = {t: f'ob{i}' for i, (t, n) in enumerate(cnt.most_common(400)) if n >= 6}
    cases = [pat.sub(lambda m: names.get(m.group(1), m.group(1)), c) for c in cr.cases]
    defs = [f'Definition {nm} := {t}.' for t, nm in names.items()]
    extra = 'Import ListNotations.\nOpen Scope Z_scope.\n' + '\n'.join(cr.seed_defs + defs)
    return coqcases.run_cases(name, 'Cache', cases, extra=extra, shard=shard)


# ---- random long sequences on corpus molecules

def in_transaction(m):
    try:
        return m._backup is not None
    except AttributeError:
        return False


def random_op(rng, world):
    """a mostly-valid operation for the current state (about one in eight has a malformed argument)"""
    m = world.cur
    atoms = list(m._atoms)
    bonds = [(n, k) for n, row in m._bonds.items() for k in row]
    bad = rng.random() < 0.12
    kinds = ['subop', 'read', 'read', 'add_atom', 'add_bond', 'add_bond', 'delete_bond', 'delete_bond', 'delete_atom', 'remap', 'union', 'copy', 'sub',
             'swap', 'flush', 'enter', 'exit_ok', 'exit_exn', 'set_charge', 'set_radical', 'patch', 'patch', 'set_name', 'set_meta']
    while True:
        k = rng.choice(kinds)
        if k in ('copy', 'sub') and len(world.others) >= 3:
            continue
        if k in ('exit_ok', 'exit_exn') and not in_transaction(m) and rng.random() < 0.8:
            continue
        if k in ('set_charge', 'set_radical') and not in_transaction(m) and rng.random() < 0.7:
            continue
        if k == 'enter' and in_transaction(m) and rng.random() < 0.8:
            continue
        if k in ('delete_bond',) and not bonds and not bad:
            continue
        if k in ('delete_atom', 'sub', 'set_charge', 'set_radical', 'patch', 'add_bond', 'remap') and len(atoms) < 2:
            continue
        break
    if k == 'subop':
        if len(world.others) >= 3 or not atoms:
            return ('swap',)
        sel = tuple(rng.sample(atoms, rng.randint(1, min(3, len(atoms)))))
        if bad:
            sel = sel + (max(atoms) + 7,)
        if rng.random() < 0.25 and len(world.others) <= 1:
            return ('split',)
        which = rng.choice(['and', 'minus', 'aug', 'subh'])
        return (which, sel) if which != 'aug' else ('aug', sel, rng.randint(0, 3))
    if k == 'read':
        names = rng.sample(sorted(TRACKED), rng.randint(1, 3))
        if rng.random() < 0.5:
            names = ['atoms_rings_sizes', 'str'] + names
        return ('read', tuple(names))
    if k == 'add_atom':
        n = None
        if rng.random() < 0.4:
            n = rng.choice(atoms) if bad and atoms else max(atoms, default=0) + rng.randint(1, 4)
        return ('add_atom', rng.choice([6, 6, 7, 8, 9, 16, 17, 1]), rng.choice([0, 0, 0, 1, -1]), rng.random() < 0.1, n)
    if k == 'add_bond':
        if bad:
            return rng.choice([('add_bond', atoms[0], atoms[0], 1), ('add_bond', atoms[0], max(atoms) + 5, 1),
                               ('add_bond', atoms[0], atoms[1], 7)] + ([('add_bond',) + bonds[0] + (1,)] if bonds else []))
        for _ in range(20):
            a, c = rng.sample(atoms, 2)
            if c not in m._bonds.get(a, {}):
                return ('add_bond', a, c, rng.choice([1, 1, 1, 2, 3, 8, 8]))
        return ('add_bond', atoms[0], atoms[1], 1)
    if k == 'delete_bond':
        if bad or not bonds:
            return ('delete_bond', atoms[0] if atoms else 1, max(atoms, default=0) + 3)
        return ('delete_bond',) + rng.choice(bonds)
    if k == 'delete_atom':
        return ('delete_atom', max(atoms) + 2 if bad else rng.choice(atoms))
    if k == 'remap':
        if bad:
            return ('remap', ((atoms[0], atoms[1]),))
        sel = rng.sample(atoms, rng.randint(1, min(4, len(atoms))))
        if rng.random() < 0.5:
            tgt = sel[1:] + sel[:1]                      # a cycle
        else:
            tgt = [max(atoms) + 1 + i for i in range(len(sel))]
        return ('remap', tuple(zip(sel, tgt)))
    if k == 'union':
        return ('union', rng.random() < 0.85, rng.random() < 0.4)
    if k == 'sub':
        if bad:
            return ('sub', rng.choice([(), (atoms[0], max(atoms) + 9)]))
        start = rng.choice(atoms)
        sel = [start]
        for _ in range(rng.randint(0, 6)):
            nb = [x for y in sel for x in m._bonds.get(y, {}) if x not in sel]
            if not nb:
                break
            sel.append(rng.choice(nb))
        if rng.random() < 0.3:
            sel.append(rng.choice(atoms))
        return ('sub', tuple(dict.fromkeys(sel)))
    if k == 'flush':
        return ('flush', rng.random() < 0.5, rng.random() < 0.5)
    if k == 'set_charge':
        return ('set_charge', max(atoms) + 1 if bad else rng.choice(atoms), 5 if bad and rng.random() < 0.5 else rng.choice([-1, 0, 1, 2]))
    if k == 'set_radical':
        return ('set_radical', rng.choice(atoms), rng.random() < 0.5)
    if k == 'patch':
        if bad:
            return ('patch', atoms[0], max(atoms) + 1, 1, 0)
        if bonds and rng.random() < 0.75:
            a, c = rng.choice(bonds)
            return ('patch', a, c, rng.choice([1, 2, 2, 3, 8]), rng.choice([0, 0, 1, -1]))
        a, c = rng.sample(atoms, 2)
        return ('patch', a, c, rng.choice([1, 2, 8]), rng.choice([0, 0, 1]))
    if k == 'set_name':
        return ('set_name', rng.randint(0, 9))
    if k == 'set_meta':
        return ('set_meta', rng.randint(0, 3), rng.randint(0, 9))
    return (k,)


def corpus_pool(ck, n, max_atoms=22):
    from chython import smiles
    out = []
    for smi in corpus.sample(corpus.lipo(), 40 * n, ck.seed, 'c13'):
        if len(out) >= n:
            break
        if len(smi) > 45:
            continue
        try:
            m = smiles(smi)
            if len(m) > max_atoms:
                continue
            if any(bd._order == 4 for *_, bd in m.bonds()):
                m.kekule()
            if any(bd._order == 4 for *_, bd in m.bonds()) or any(a.implicit_hydrogens is None for _, a in m.atoms()):
                continue
        except Exception:  # noqa
            continue
        out.append(smi)
    return out


def step_term(mops, mexn, strict, obs, ids):
    return (f'(mkStep {lst(mops)} {lst(mexn, exn_term)} {b(strict)} {obs_term(obs[0])} {lst(obs[1:], obs_term)} {lst(ids, zraw)})')


def explore_random(cr, nseq, length, do_search=True):
    ck = cr.ck
    rng = random.Random(f'{ck.seed}:c13r')
    pool = corpus_pool(ck, nseq)
    others = ['CN', 'O', 'CC(=O)O', '[Na+].[Cl-]', 'C1CC1', 'CN@60', 'C1CC1@70']       # @n: numbers disjoint from the corpus molecule
    first = len(cr.cases)
    for i in range(nseq):
        smi = pool[i % len(pool)]
        oth = rng.choice(others)
        w = fresh_world(smi, oth)
        hook = SearchHook()
        name = f'rs{i}'
        cr.seed_def(name, w.cur, w.others[0])
        steps = []
        strict = True
        trail = []
        searching = do_search
        for j in range(length):
            if not strict and corrupt(w):
                ck.count('corr:random:stopped-after-broken-adjacency')
                break
            op = random_op(rng, w)
            before = fingerprint(w)
            hook.before(w, j, op)
            e = w.apply(op)
            if e is not None and strict and fingerprint(w) != before:
                strict = False
            hook.after(w, j, op, e)
            eff = w.effective
            trail.append((eff, e, op))
            mops = model_ops(eff)
            mexn = [None] * len(mops) if eff[0] == 'read' else [e]
            obs = [observe(m) for m in w.live()]
            steps.append(step_term(mops, mexn, strict and all(o['strict'] for o in obs), obs, identity_partition(w)))
            ck.count('corr:random:op=' + op[0])
            ck.count('corr:step:' + (e or 'ok'))
            sh = atoms_shared(w)
            if sh:
                cr.shared_atoms.append((name, [t[2] for t in trail], sh))
            if searching:
                hf = [f for f in hook.findings if f[0] == j]
                ff = []
                if not hf and not in_transaction(w.cur) and id(w.cur) not in hook.tainted and adjacency_ok(w.cur) and rng.random() < 0.5:
                    # look at every derived value of the current molecule; the model is told about these reads
                    w.apply(READ_ALL)
                    mops = model_ops(w.effective)
                    obs = [observe(m) for m in w.live()]
                    steps.append(step_term(mops, [None] * len(mops), strict and all(o['strict'] for o in obs), obs, identity_partition(w)))
                    trail.append((w.effective, None, READ_ALL))
                    ff = [(0, kind, det) for kind, det in full_compare(w.cur)]
                if hf or ff:
                    # the first failure seen in this history; not every step is looked at, so the culprit is the last operation of
                    # the shortest failing prefix
                    full = [t[2] for t in (trail[:-1] if ff else trail)]
                    done = False
                    for k2 in range(1, len(full) + 1):
                        w2 = fresh_world(smi, oth)
                        h2 = SearchHook()
                        run_ops(w2, full[:k2], h2)
                        hf2 = [f for f in h2.findings if f[0] == k2 - 1]
                        ff2 = final_findings(w2, h2)
                        if hf2 or ff2:
                            report(ck, smi, oth, full[:k2], hf2, [] if hf2 else ff2, 'random (shortest failing prefix)')
                            done = True
                            break
                    if not done:
                        report(ck, smi, oth, full, hf, ff, 'random')
                    searching = False
                else:
                    ck.count('search:random:clean-steps')
        if searching:
            ff = final_findings(w, hook)
            if ff:
                # the culprit is the last operation of the shortest failing prefix
                full = [t[2] for t in trail]
                for k2 in range(1, len(full) + 1):
                    w2 = fresh_world(smi, oth)
                    h2 = SearchHook()
                    run_ops(w2, full[:k2], h2)
                    hf2 = [f for f in h2.findings if f[0] == k2 - 1]
                    ff2 = final_findings(w2, h2)
                    if hf2 or ff2:
                        report(ck, smi, oth, full[:k2], hf2, [] if hf2 else ff2, 'random (shortest failing prefix)')
                        break
                else:
                    report(ck, smi, oth, full, [], ff, 'random (end of history)')
        ck.count('corr:read-raised', w.read_raised)
        cr.cases.append(f'check_steps {name} {lst(steps)}')
        cr.meta.append((f'{name}:{smi}|{oth}', [t[0] for t in trail], [t[1] for t in trail]))
        ck.case((name, smi, tuple(t[0] for t in trail)), nontrivial=True)
        ck.count(f'corr:random:atoms<={10 * (len(w.cur._atoms) // 10 + 1)}')
    return first


# ---------------------------------------------------------------------------------------------------------------
# search: property-level oracles on the real code, independent of the model

DERIVED = ('sssr', 'atoms_order', 'brutto', 'molecular_charge', 'molecular_mass', 'is_radical', 'bonds_count', 'connected_components',
           'rings_count', 'atoms_rings', 'atoms_rings_sizes', 'not_special_connectivity', 'skin_graph', 'aromatic_rings', 'tetrahedrons',
           'cumulenes', 'stereogenic_tetrahedrons', 'stereogenic_allenes', 'stereogenic_cis_trans', 'chiral_tetrahedrons',
           'chiral_allenes', 'chiral_cis_trans')
UNTRACKED_DERIVED = tuple(k for k in DERIVED if k not in TRACKED)
READ_ALL = ('read', ('atoms_rings_sizes', 'all_other') + tuple(k for k in TRACKED if k != 'atoms_rings_sizes'))
ATOM_DERIVED = ('_implicit_hydrogens', '_explicit_hydrogens', '_neighbors', '_heteroatoms', '_hybridization', '_ring_sizes', '_in_ring')


def deep(m):
    """everything stored in a molecule except its cache (for rollback / independence comparisons)"""
    return ([(n, type(a).__name__) + tuple(repr(getattr(a, s, UNSET)) for s in ATOM_SLOTS if s != '_parsed_mapping')
             for n, a in m._atoms.items()],
            [(n, [(k, bd._order, getattr(bd, '_in_ring', UNSET), getattr(bd, '_stereo', UNSET)) for k, bd in row.items()])
             for n, row in m._bonds.items()], m._name, None if m._meta is None else dict(m._meta))


def get_str(m):
    try:
        return str(m)
    except Exception as e:  # noqa
        return ('raises', type(e).__name__)


def full_compare(m):
    """differences between what the molecule reports and what a molecule rebuilt from scratch reports: list of (kind, detail)"""
    if not adjacency_ok(m):
        return [('adjacency', 'adjacency is not a symmetric aliased one over the atoms')]
    r = rebuild(m)
    out = []
    for n, a in m._atoms.items():
        ra = r._atoms[n]
        for s in ATOM_DERIVED:
            if getattr(a, s, UNSET) != getattr(ra, s):
                out.append(('hydrogens' if s == '_implicit_hydrogens' else 'labels', f'atom {n} {s}: {getattr(a, s, UNSET)!r} != {getattr(ra, s)!r}'))
        if getattr(a, '_stereo', UNSET) != ra._stereo:
            out.append(('stereo', f'atom {n} stereo label {getattr(a, "_stereo", UNSET)!r} would be {ra._stereo!r} after fix_stereo on a rebuilt molecule'))
    for n, row in m._bonds.items():
        for k, bd in row.items():
            rb = r._bonds[n][k]
            if getattr(bd, '_in_ring', UNSET) != rb._in_ring and not (not getattr(bd, '_in_ring', UNSET) and not rb._in_ring):
                out.append(('bond-labels', f'bond {n}-{k} in_ring: {getattr(bd, "_in_ring", UNSET)!r} != {rb._in_ring!r}'))
            if getattr(bd, '_stereo', UNSET) != rb._stereo:
                out.append(('stereo', f'bond {n}-{k} stereo label {getattr(bd, "_stereo", UNSET)!r} != {rb._stereo!r}'))
    # the rebuilt molecule is read in the OPPOSITE order (every derived value first, the SMILES last), so that a value that depends on
    # what was read before it shows up as a difference; and a value, once read, must not change because something else is read
    first_r = {key: safe_get(r, key) for key in DERIVED}
    a, c = get_str(m), get_str(r)
    if a != c:
        out.append(('cache', f'str: {a!r} != {c!r}'))
    first_m = {}
    for key in DERIVED:
        a, c = safe_get(m, key), first_r[key]
        first_m[key] = a
        if a != c:
            out.append(('cache', f'{key}: {a!r} != {c!r}'))
    for x in (m, r):
        try:
            format(x, '!s')
        except Exception:  # noqa
            pass
    for which, x, first in (('the molecule', m, first_m), ('a molecule rebuilt from scratch', r, first_r)):
        for key in DERIVED:
            again = safe_get(x, key)
            if again != first[key]:
                out.append(('read-order', f'{key} of {which} changed because other derived values were read: {first[key]!r} -> {again!r}'))
    return out


def expected_exception(world, op):
    """exception class the operation must raise according to its contract, None if it must succeed, '*' if unspecified"""
    m = world.cur
    k = op[0]
    atoms = m._atoms
    bonded = lambda x, y: x in m._bonds and y in m._bonds[x]
    if k == 'read':
        return '*' if in_transaction(m) or any(getattr(a, '_implicit_hydrogens', None) is None for a in atoms.values()) else None
    if k == 'add_atom':
        return 'ValueError' if op[4] in atoms else None
    if k == 'add_bond':
        if op[3] not in (1, 2, 3, 4, 8) or op[1] == op[2]:
            return 'ValueError'
        if op[1] not in atoms or op[2] not in atoms:
            return 'KeyError'
        return 'ValueError' if bonded(op[1], op[2]) else None
    if k == 'delete_atom':
        return None if op[1] in atoms else 'KeyError'
    if k == 'delete_bond':
        return None if bonded(op[1], op[2]) else 'KeyError'
    if k == 'remap':
        mp = dict(op[1])
        bad = len(mp) != len(set(mp.values())) or not (atoms.keys() - mp.keys()).isdisjoint(mp.values())
        return 'ValueError' if bad else None
    if k == 'enter' and in_transaction(m):
        return 'OtherError'      # RuntimeError('nested transactions are not supported')
    if k in ('union', 'copy', 'sub', 'subh', 'and', 'minus', 'aug', 'split') and (in_transaction(m) or (k == 'union' and in_transaction(world.others[0]))):
        return '*'       # objects made from the intermediate state of an open transaction: outside the contract
    if k == 'union':
        return 'ValueError' if not op[1] and atoms.keys() & world.others[0]._atoms.keys() else None
    if k in ('sub', 'and', 'subh'):
        return 'ValueError' if not op[1] or set(op[1]) - atoms.keys() else None
    if k == 'minus':
        return 'ValueError' if set(op[1]) - atoms.keys() or not (atoms.keys() - set(op[1])) else None
    if k == 'aug':
        return 'ValueError' if not op[1] or set(op[1]) - atoms.keys() else None
    if k == 'set_charge':
        return 'KeyError' if op[1] not in atoms else ('ValueError' if abs(op[2]) > 4 else None)
    if k == 'set_radical':
        return None if op[1] in atoms else 'KeyError'
    if k == 'patch':
        if op[1] == op[2]:
            return 'ValueError'
        return None if op[1] in atoms and op[2] in atoms else 'KeyError'
    if k == 'exit_exn':
        return None if in_transaction(m) else '*'      # __exit__ without __enter__ is outside the contract
    return None


def comp_snapshot(m):
    """connected components (own traversal of _bonds, no cached property involved): frozenset(atoms) -> (structure, stereo labels).
    None when the adjacency is broken."""
    if not adjacency_ok(m):
        return None
    seen = set()
    out = {}
    for s in m._atoms:
        if s in seen:
            continue
        comp, stack = {s}, [s]
        while stack:
            x = stack.pop()
            for y in m._bonds[x]:
                if y not in comp:
                    comp.add(y)
                    stack.append(y)
        seen |= comp
        atoms = sorted((n, m._atoms[n].atomic_number, m._atoms[n]._isotope, m._atoms[n]._charge, m._atoms[n]._is_radical) for n in comp)
        bonds = sorted((n, k, bd._order) for n in comp for k, bd in m._bonds[n].items() if n < k)
        labels = (sorted((n, getattr(m._atoms[n], '_stereo', UNSET)) for n in comp if getattr(m._atoms[n], '_stereo', None) is not None),
                  sorted((n, k, getattr(bd, '_stereo', UNSET)) for n in comp for k, bd in m._bonds[n].items()
                         if n < k and getattr(bd, '_stereo', None) is not None))
        out[frozenset(comp)] = ((atoms, bonds), labels)
    return out


def stereo_locality(pre, post):
    """a connected component whose atoms and bonds are exactly what they were keeps exactly its stereo labels: whether a centre
    is stereogenic depends on its own component only (oracle independent of fix_stereo and of any cache)"""
    out = []
    if pre is None or post is None:
        return out
    for comp, (struct, labels) in post.items():
        if comp in pre and pre[comp][0] == struct and pre[comp][1] != labels:
            out.append(f'component {sorted(comp)} was not touched but its stereo labels changed: {pre[comp][1]!r} -> {labels!r}')
    return out


class SearchHook:
    """watches one run: unexpected exceptions, independence of the other live molecules, exact rollback, stereo labels of untouched
    components"""

    def __init__(self):
        self.findings = []      # (step index, kind, detail)
        self.txn = {}           # id(mol) -> deep() at __enter__
        self.txn_comp = {}      # id(mol) -> comp_snapshot() at __enter__
        self.stack = {}         # id(mol) -> deep() snapshots of the blocks opened and not yet closed (nesting)
        self.origin = {}        # id(mol) -> how the object was made
        self.tainted = set()    # molecules whose coherence is the caller's duty (setter outside a transaction, made inside one)

    def before(self, world, i, op):
        if op[0] in ('set_charge', 'set_radical') and not in_transaction(world.cur):
            # "Make sure to flush cache and recalculate hydrogens count and stereo. Or use context manager": the caller's duty
            self.tainted.add(id(world.cur))
        self.expect = expected_exception(world, op)
        self.cur = world.cur
        self.watch = [(m, deep(m)) for m in world.live() if m is not world.cur]
        self.n_others = len(world.others)
        self.pre_changed = repr(getattr(world.cur, '_changed', UNSET))
        self.pre_slots = (hasattr(world.cur, '_changed'), hasattr(world.cur, '_backup'))
        self.pre_comp = self.txn_comp.get(id(world.cur)) if op[0] == 'exit_ok' and in_transaction(world.cur) else comp_snapshot(world.cur)
        self.pre_txn = in_transaction(world.cur)
        if op[0] == 'exit_exn' and in_transaction(world.cur):
            self.rollback_to = self.txn.get(id(world.cur))
        else:
            self.rollback_to = None
        # a block closed although an inner block of the same molecule already dropped the backup
        self.nested_close = op[0] in ('exit_exn', 'exit_ok') and not in_transaction(world.cur) and bool(self.stack.get(id(world.cur)))

    def after(self, world, i, op, e):
        m = self.cur
        if self.expect != '*' and e != self.expect:
            self.findings.append((i, 'raises', f'{op} raised {e}, contract says {self.expect}; _changed before = {self.pre_changed}; '
                                              f'slots set (_changed, _backup) = {self.pre_slots}; object made by {self.origin.get(id(m), "reader")}'))
        for x, d in self.watch:
            if deep(x) != d:
                self.findings.append((i, 'independence', f'{op} on one molecule changed another live molecule (made by {self.origin.get(id(x), "reader")})'))
        if op[0] == 'subh' and e is None and len(world.others) == self.n_others + 1:
            # substructure(.., recalculate_hydrogens=False): the hydrogen counts are those of the source by design, so the rebuilt
            # molecule is no oracle unless whole components were taken; the stereo labels, however, must be re-validated on the cut
            new = world.others[0]
            self.origin[id(new)] = 'substructure (kept hydrogens)'
            comps = comp_snapshot(m)
            whole = comps is not None and all(c <= set(new._atoms) or c.isdisjoint(new._atoms) for c in comps)
            if not whole or id(m) in self.tainted or in_transaction(m):
                self.tainted.add(id(new))
            ref = clone(new)
            try:
                ref.fix_stereo()
                want = comp_snapshot(ref)
                got = comp_snapshot(new)
                if want is not None and got is not None and {c: v[1] for c, v in want.items()} != {c: v[1] for c, v in got.items()}:
                    self.findings.append((i, 'stereo-cut', f'{op}: the labels of the substructure are not those fix_stereo leaves on it: '
                                                         f'{[v[1] for v in got.values()]!r} vs {[v[1] for v in want.values()]!r}'))
                str(new)
            except Exception as ex:  # noqa
                self.findings.append((i, 'stereo-cut', f'{op}: the substructure cannot be written / re-validated: {type(ex).__name__}'))
        if op[0] in ('copy', 'sub', 'and', 'minus', 'aug') or (op[0] == 'union' and op[2]):
            if e is None and len(world.others) == self.n_others + 1:
                new = world.others[0]
                self.origin[id(new)] = {'copy': 'copy', 'sub': 'substructure', 'union': 'union'}.get(op[0], 'substructure')
                if id(m) in self.tainted or in_transaction(m) or (op[0] == 'union' and id(world.others[1]) in self.tainted):
                    self.tainted.add(id(new))
                if op[0] == 'copy' and deep(new) != deep(m):
                    self.findings.append((i, 'copy-differs', 'copy() does not equal its source'))
        if e is None and len(world.others) > self.n_others and op[0] != 'swap':
            # a molecule that was just made (copy, substructure, union(copy=True), split part ...) has never been entered: whatever the
            # state of its source, no transaction is open on it (the harness' own bookkeeping of `with` blocks, not the _backup slot
            # of the source, is the reference), so `with new:` must be possible and its edits must recalculate
            for new in world.others[:len(world.others) - self.n_others]:
                if in_transaction(new) and not self.stack.get(id(new)):
                    self.findings.append((i, 'born-in-transaction', f'{op}: the new molecule is inside a transaction nobody opened on it '
                                                                     f'(_backup set; source inside a transaction: {self.pre_txn}): its edits skip '
                                                                     f'fix_structure / fix_stereo and `with new:` is refused'))
        if op[0] == 'split' and e is None:
            for part in world.others[:max(0, len(world.others) - self.n_others)]:
                self.origin[id(part)] = 'split'
                if id(m) in self.tainted or in_transaction(m):       # split copies the hydrogen counts instead of recalculating them
                    self.tainted.add(id(part))
        if op[0] == 'union' and e is None and world.others:
            partner = world.others[1] if op[2] and len(world.others) == self.n_others + 1 else world.others[0]
            if id(partner) in self.tainted or in_transaction(partner) or (op[2] and in_transaction(m)):
                # the copy of a molecule inside an open transaction carries its not yet recalculated atoms: outside the contract
                self.tainted.add(id(world.others[0]) if op[2] and len(world.others) == self.n_others + 1 else id(m))
        if e is None and id(m) not in self.tainted and op[0] not in ('swap', 'exit_exn') and (op[0] == 'exit_ok' or not self.pre_txn):
            for det in stereo_locality(self.pre_comp, comp_snapshot(m)):
                self.findings.append((i, 'stereo-locality', f'{op}: {det}'))
            if (op[0] in ('sub', 'subh', 'copy', 'and', 'minus', 'aug') or (op[0] == 'union' and op[2])) and len(world.others) == self.n_others + 1:
                for det in stereo_locality(self.pre_comp, comp_snapshot(world.others[0])):
                    self.findings.append((i, 'stereo-locality', f'{op} (the new molecule): {det}'))
            if op[0] == 'split':
                for part in world.others[:max(0, len(world.others) - self.n_others)]:
                    for det in stereo_locality(self.pre_comp, comp_snapshot(part)):
                        self.findings.append((i, 'stereo-locality', f'{op} (a part): {det}'))
        if op[0] in ('exit_exn', 'exit_ok') and self.stack.get(id(m)):
            outer = self.stack[id(m)].pop()
            if self.nested_close and (e is not None or (op[0] == 'exit_exn' and deep(m) != outer)):
                self.findings.append((i, 'nested-transaction', f'{op} closing an outer block after an inner block of the same molecule was closed: '
                                                               f'raised {e}, molecule restored: {deep(m) == outer}'))
        if op[0] == 'enter' and e is None:
            self.txn[id(m)] = deep(m)
            self.txn_comp[id(m)] = self.pre_comp
            self.stack.setdefault(id(m), []).append(self.txn[id(m)])
        if self.rollback_to is not None and e is None:
            if deep(m) != self.rollback_to:
                self.findings.append((i, 'rollback', 'a transaction that raised did not restore the molecule exactly'))
            try:
                if m._backup is not None:
                    self.findings.append((i, 'rollback', '_backup still set after __exit__'))
            except AttributeError:
                pass


def final_findings(world, hook=None):
    """the rebuilt-from-scratch comparison of every live molecule that is not inside a transaction"""
    out = []
    for j, m in enumerate(world.live()):
        if hook and id(m) in hook.tainted:
            continue
        if in_transaction(m):
            if not adjacency_ok(m):
                out.append((j, 'adjacency', 'broken adjacency inside a transaction'))
            continue
        out += [(j, kind, det) for kind, det in full_compare(m)]
    return out


# ---- matching a failure to a recorded defect: only when an intervention at exactly that call site removes it

def _set_slots(w):
    for s in ('_changed', '_backup'):
        if not hasattr(w.cur, s):
            setattr(w.cur, s, None)


def _reset_changed(w):
    w.cur._changed = None


def _flush(w):
    w.cur.flush_cache()


def _flush_reset(w):
    w.cur.flush_cache()
    w.cur._changed = None


def _labels(w):
    w.cur.calc_labels()


def _labels_new(w):
    w.others[0].calc_labels()


def _fix_stereo(w):
    w.cur.flush_cache()
    w.cur.fix_stereo()


def attempt(cur, other, ops, pre=None, post=None):
    """re-run ops with an intervention just before / after the last one; returns the failures that remain at the last step"""
    w = fresh_world(cur, other)
    h = SearchHook()
    run_ops(w, ops[:-1], h)
    n0 = len(h.findings)
    if pre:
        pre(w)
    run_ops(w, ops[-1:], h)
    if post:
        post(w)
    return h.findings[n0:], final_findings(w, h)


def classify(cur, other, ops, hook_findings, final):
    """ops: minimal failing history (culprit = last operation). Returns the key of the recorded defect this failure is an
    instance of, or None"""
    if not ops:            # the freshly read molecule itself fails an oracle: no operation to blame, never a recorded defect
        return None
    op = ops[-1]
    k = op[0]
    clean = lambda r: not r[0] and not r[1]
    if hook_findings:
        kinds = {f[1] for f in hook_findings}
        if kinds == {'nested-transaction'}:
            return 'nested-transaction-no-rollback'
        if kinds != {'raises'}:
            return None
        det = hook_findings[0][2]
        if 'raised AttributeError' in det and ('(False, ' in det or ', False)' in det):
            if not attempt(cur, other, ops, pre=_set_slots)[0]:
                origin = det.rsplit('object made by ', 1)[1]
                return {'copy': 'copy-slots-unset', 'union': 'union-slots-unset', 'substructure': 'substructure-backup-unset'}.get(origin)
            return None
        if 'raised KeyError' in det and k == 'exit_ok':
            return 'exit-ok-changed-dangling' if not attempt(cur, other, ops, pre=_reset_changed)[0] else None
        if 'raised KeyError' in det and 'exit_exn' in [o[0] for o in ops[:-1]]:
            return 'exit-exn-changed-stale' if not attempt(cur, other, ops, pre=_reset_changed)[0] else None
        if 'raised AttributeError' in det and k in ('copy', 'enter', 'union'):
            w = fresh_world(cur, other)
            run_ops(w, ops[:-1])
            special = [bd for row in w.cur._bonds.values() for bd in row.values() if not hasattr(bd, '_in_ring')]
            if special and all(bd._order == 8 for bd in special) and not attempt(cur, other, ops, pre=_labels)[0]:
                return 'add_bond-special-no-labels'
        return None
    kinds = {f[1] for f in final}
    if k in ('delete_bond', 'delete_atom') and kinds <= {'cache', 'labels', 'bond-labels', 'stereo'}:
        return f'{k}-no-flush' if clean(attempt(cur, other, ops, pre=_flush)) else None
    if k == 'exit_ok':
        if clean(attempt(cur, other, ops, pre=_flush)):
            return 'exit-ok-no-flush'
        if clean(attempt(cur, other, ops, pre=_flush_reset)):
            last_enter = max([j for j, o in enumerate(ops) if o[0] == 'enter'], default=0)
            block = ops[last_enter:]
            setter = any(o[0] in ('set_charge', 'set_radical') for o in block)
            if setter and any(o[0] == 'union' and not o[2] for o in block) and any(o[0] == 'delete_atom' for o in block):
                return 'txn-union-number-reuse-untracked'     # known: an atom merged in place under the number of a deleted atom
            if setter and any(o[0] == 'remap' or (o[0] == 'union' and not o[2]) for o in block):
                return 'txn-setter-renumbered-untracked'      # fixed by 33c6db4
            return 'txn-setter-untracked'
        return None
    if k == 'add_bond' and op[3] == 8 and kinds <= {'bond-labels'}:
        return 'add_bond-special-no-labels' if clean(attempt(cur, other, ops, post=_labels)) else None
    if (k == 'remap' or (k == 'union' and op[1])) and kinds <= {'labels'} and all('_ring_sizes' in f[2] or '_in_ring' in f[2] for f in final):
        # known: which rings the SSSR picks depends on the numbering; remap keeps the ring marks of the old choice
        return 'remap-ring-marks-sssr-choice' if clean(attempt(cur, other, ops, post=_labels_new if k == 'union' and op[2] else _labels)) else None
    if k == 'add_bond' and op[3] == 8 and kinds <= {'stereo', 'cache'}:
        # known: a special bond to a labelled stereocentre does not run fix_stereo
        return 'add_bond-special-stereo-stale' if clean(attempt(cur, other, ops, post=_fix_stereo)) else None
    return None


def replay_sequence(cur, other, ops):
    """used by replay files: run the operations on the real code and print what the oracles see"""
    w = fresh_world(cur, other)
    h = SearchHook()
    exns = run_ops(w, [tuple(tuple(x) if isinstance(x, list) else x for x in o) for o in ops], h)[0]
    print('exceptions per step:', exns)
    for f in h.findings:
        print('step', f[0], f[1], f[2])
    for f in final_findings(w, h):
        print('molecule', f[0], f[1], f[2])
    print('current molecule:', get_str(w.cur))


def report(ck, cur, other, ops, hook_findings, final, where):
    key = classify(cur, other, ops, hook_findings, final)
    what = (hook_findings[0][2] if hook_findings else final[0][2])
    kind = hook_findings[0][1] if hook_findings else final[0][1]
    ck.count('search:failure:' + (key or 'UNMATCHED:' + kind))
    if key is None:
        key = f'{kind}:{cur}|{other}:{ops!r}'
    ck.counterexample(key, f'{kind}: {what}'[:300], {'current': cur, 'other': other, 'operations': [list(o) for o in ops], 'where': where},
                      [f[1] + ': ' + f[2] for f in (hook_findings or [])][:5] + [f'mol {f[0]} {f[1]}: {f[2]}' for f in final][:8],
                      'every derived value equals the one of a molecule rebuilt from scratch; no exception outside the contract; other molecules untouched',
                      'rebuild-from-scratch / contract / deep comparison of other live molecules',
                      replay_py=f'from checks import C13\nC13.replay_sequence({cur!r}, {other!r}, {ops!r})')
    return key


def directed_search(ck, bad, budget):
    """the correspondence disagrees on these histories: look for a concrete failure of the REAL code on and around them (every
    prefix, and every one-operation extension followed by a read of all derived values), with the model-independent oracles"""
    import time
    t0 = time.time()
    found = 0
    around = [()] + [(e,) for e in EXTRA + [READ_STR, ('flush', True, True), ('add_atom', 6, 0, False, None)]]
    for tag, ops, exns in bad[:60]:
        cur, other = tag.split(':', 1)[1].split('|')
        base = [tuple(tuple(x) if isinstance(x, list) else x for x in o) for o in ops]
        hit = False
        # every proper prefix first (a later operation may repair what an earlier one broke), then the one-operation extensions
        for seq in [base[:k] for k in range(1, len(base))] + [base + list(ext) for ext in around]:
            if time.time() - t0 > budget:
                ck.count('directed:budget-exhausted')
                return found
            w = fresh_world(cur, other)
            hook = SearchHook()
            try:
                run_ops(w, seq, hook)
                if not in_transaction(w.cur) and id(w.cur) not in hook.tainted and adjacency_ok(w.cur):
                    w.apply(READ_ALL)
                ff = final_findings(w, hook)
            except Exception as e:  # noqa
                ck.count('directed:oracle-crashed:' + type(e).__name__)
                continue
            ck.case(('directed', tag, tuple(seq)), nontrivial=True)
            ck.count('directed:histories')
            if hook.findings:
                i = hook.findings[0][0]
                report(ck, cur, other, seq[:i + 1], [f for f in hook.findings if f[0] == i], [], 'directed search around a correspondence disagreement')
                hit = True
            elif ff:
                report(ck, cur, other, seq, [], ff, 'directed search around a correspondence disagreement')
                hit = True
            if hit:
                found += 1
                break
    return found


def search_stereo_and_reactions(ck):
    """molecules with stereo labels (fix_stereo after edits), reaction containers (copy independence, flush propagation)"""
    from chython import smiles
    seeds = [('C[C@H](F)O', 'CN', [READ_STR, ('delete_atom', 3), ('delete_bond', 2, 4), ('add_bond', 1, 3, 1), ('add_atom', 6, 0, False, None),
                                   ('enter',), ('exit_ok',), ('exit_exn',), ('set_charge', 4, -1), ('copy',), ('swap',), ('sub', (1, 2, 3, 4))]),
             ('F/C=C/Cl', 'CN', [READ_STR, ('delete_atom', 1), ('delete_bond', 2, 3), ('patch', 2, 3, 1, 0), ('add_bond', 1, 4, 1),
                                 ('enter',), ('exit_ok',), ('exit_exn',), ('union', True, False), ('remap', ((1, 4), (4, 1))), ('copy',), ('swap',)])]
    # stereo that depends on other centres' labels (pseudo-asymmetric C4; a double bond whose substituents differ by chirality
    # only) + an ethane in another component: edits far away from the chiral part, transactions, substructures, in-place union
    def far(e1, e2):        # e1, e2 = the ethane; e2 + 1 = the atom add_atom makes; 1 .. e1 - 1 = the chiral component
        return [READ_STR, ('add_atom', 6, 0, False, None), ('delete_atom', e2), ('delete_bond', e1, e2), ('add_bond', e1, e2 + 1, 1),
                ('add_bond', e1, e2 + 1, 8), ('add_bond', 2, e1, 8), ('enter',), ('exit_ok',), ('exit_exn',), ('sub', tuple(range(1, e1))), ('union', True, False),
                ('copy',), ('swap',)]
    seeds += [('raw:C[C@H](O)[C@H](Cl)[C@@H](C)O.CC', 'CN', far(9, 10)), ('raw:Cl/C=C([C@H](C)F)/[C@@H](C)F.CC', 'CN@20', far(10, 11)),
              ('C[C@H](O)[C@H](Cl)[C@@H](C)O.CC', 'CN', far(9, 10)[:6])]
    # the reader is an independent source of labels: recalculating everything on a freshly read molecule must keep them
    for smi in ('C[C@H](O)[C@H](Cl)[C@@H](C)O', 'C[C@H](O)[C@@H](Cl)[C@@H](C)O', 'Cl/C=C([C@H](C)F)/[C@@H](C)F', 'C[C@H](F)O', 'F/C=C/Cl'):
        m = smiles(smi)
        before = comp_snapshot(m)
        normalise(m)
        ck.case(('reader-labels', smi), nontrivial=True)
        for det in stereo_locality(before, comp_snapshot(m)):
            ck.counterexample(f'stereo-recalculation:{smi}', 'flush_cache + fix_structure + fix_stereo on a freshly read molecule changed its stereo labels: ' + det[:200],
                              {'smiles': smi}, det, 'labels as read', 'the reader',
                              replay_py=f'from chython import smiles\nm = smiles({smi!r}); print({{n: a.stereo for n, a in m.atoms()}}); m.flush_cache(); '
                                        f'm.fix_structure(); m.fix_stereo(); print({{n: a.stereo for n, a in m.atoms()}})')
    # cuts through stereo elements with the hydrogens kept (recalculate_hydrogens=False): the labels must still be re-validated
    cuts = [READ_STR, ('subh', (1, 2, 3, 5)), ('subh', (1, 2, 3, 4, 5, 6)), ('subh', (2, 3, 4)), ('sub', (1, 2, 3, 5)), ('copy',), ('swap',),
            ('delete_atom', 6), ('add_bond', 4, 6, 1)]
    seeds += [('raw:C[C@H](CF)CCl', 'CN', cuts), ('raw:F/C=C/Cl', 'CN', [READ_STR, ('subh', (2, 3, 4)), ('subh', (1, 2, 3)), ('subh', (1, 2, 3, 4)), ('copy',), ('swap',)])]
    # stereo centres that the Morgan ranking cannot tell apart (symmetric rings: the stereo-aware ranking has to break the ties
    # itself): reads in every order, an edit that keeps / creates the symmetry, copies, transactions
    sym = [READ_STR, ('read', ('atoms_order',)), ('delete_atom', 1), ('add_atom', 6, 0, False, None), ('copy',), ('swap',), ('enter',), ('exit_ok',)]
    seeds += [('C[C@H]1CC[C@@H](C)CC1', 'CN@30', sym), ('C[C@H]1CC[C@H](C)CC1', 'CN@30', sym), ('C[C@H]1C[C@@H](C)C1', 'CN@30', sym),
              ('CO[C@H]1[C@H](O)[C@@H](O)[C@H](O)[C@@H](O)[C@@H]1O', 'CN@30', sym)]
    for cur, other, alphabet in seeds:
        status = {}
        for d in range(0, 3):
            for ops in itertools.product(alphabet, repeat=d):
                if ops and status[ops[:-1]] != 'clean':
                    status[ops] = 'downstream'
                    continue
                w = fresh_world(cur, other)
                hook = SearchHook()
                run_ops(w, ops, hook)
                hf = [f for f in hook.findings if f[0] == len(ops) - 1]
                ff = final_findings(w, hook)
                ck.case(('stereo', cur, ops), nontrivial=True)
                if hf or ff:
                    status[ops] = 'bad'
                    report(ck, cur, other, list(ops), hf, ff, 'stereo seeds')
                else:
                    status[ops] = 'clean'
                    ck.count('search:stereo:clean-sequences')
    # transactions: enter, two operations (setters, structural edits, renumbering, a read), then commit or roll back, then a look
    body = [READ_STR, ('set_charge', 3, -1), ('set_radical', 2, True), ('add_atom', 7, 0, False, None), ('delete_atom', 3), ('add_bond', 1, 3, 1),
            ('delete_bond', 2, 3), ('remap', ((1, 9),)), ('remap', ((3, 7), (2, 3))), ('patch', 1, 2, 2, 0), ('add_bond', 1, 3, 8)]
    for cur, other in (('CCO', 'CN'), ('C1CC1C', 'CN')):
        for mid in itertools.product(body, repeat=2):
            for end in (('exit_ok',), ('exit_exn',)):
                ops = (('enter',),) + mid + (end,)
                w = fresh_world(cur, other)
                hook = SearchHook()
                run_ops(w, ops, hook)
                ff = final_findings(w, hook)
                ck.case(('txn', cur, ops), nontrivial=True)
                if hook.findings or ff:
                    i = hook.findings[0][0] if hook.findings else len(ops) - 1
                    report(ck, cur, other, list(ops[:i + 1]), [f for f in hook.findings if f[0] == i], [] if hook.findings else ff, 'transaction seeds')
                else:
                    ck.count('search:txn:clean-sequences')
    # three operations in the block: a setter, a renumbering / in-place union, a structural edit (known finding
    # txn-setter-renumbered-untracked lives here), and nested blocks of one molecule (known finding nested-transaction-no-rollback)
    body3 = [('set_charge', 3, -1), ('set_radical', 2, True), ('set_charge', 12, 1), ('remap', ((3, 9),)), ('remap', ((1, 2), (2, 1))),
             ('add_atom', 7, 0, False, None), ('delete_bond', 1, 2), ('union', False, False)]
    blocks = [(('enter',),) + mid + (end,) for mid in itertools.product(body3, repeat=3) for end in (('exit_ok',), ('exit_exn',))]
    blocks += [(('enter',), ('enter',), ('add_atom', 9, 0, False, None), ('exit_ok',), ('exit_exn',)),
               (('enter',), ('enter',), ('add_atom', 9, 0, False, None), ('exit_exn',), ('add_atom', 7, 0, False, None), ('exit_exn',)),
               (('enter',), ('enter',), ('exit_ok',), ('exit_ok',)), (('enter',), ('add_atom', 9, 0, False, None), ('enter',), ('exit_exn',))]
    blocks = [('CCO', 'CN@10', ops) for ops in blocks]
    blocks.append(('CCO', '[NH4+]@2', (('enter',), ('delete_atom', 3), ('union', False, False), ('set_charge', 3, 0), ('add_atom', 6, 0, False, None), ('exit_ok',))))
    for cur, other, ops in blocks:
        w = fresh_world(cur, other)
        hook = SearchHook()
        run_ops(w, ops, hook)
        ff = final_findings(w, hook)
        ck.case(('txn3', ops), nontrivial=True)
        if hook.findings or ff:
            i = hook.findings[0][0] if hook.findings else len(ops) - 1
            report(ck, cur, other, list(ops[:i + 1]), [f for f in hook.findings if f[0] == i], [] if hook.findings else ff, 'transaction seeds (3 operations, nesting)')
        else:
            ck.count('search:txn3:clean-sequences')
    # explicify_hydrogens / implicify_hydrogens: in-place edits with flush_cache(keep_sssr=True) (55af6a9: the stale
    # not_special_connectivity was kept); after them the molecule must equal a rebuilt one and its own copy
    for cur in ('S', 'CCO', 'C[C@H](F)O', 'C1CC1C', '[NH4+]', 'C[C@H](O)[C@H](Cl)[C@@H](C)O'):
        for ops in itertools.product([READ_STR, ('read', ('not_special_connectivity', 'sssr')), ('explicify',), ('implicify',), ('add_atom', 1, 0, False, None)], repeat=3):
            if not any(o[0] in ('explicify', 'implicify') for o in ops):
                continue
            w = fresh_world(cur, 'CN@40')
            hook = SearchHook()
            exns = run_ops(w, ops, hook)[0]
            ff = final_findings(w, hook)
            ck.case(('hydrogens-inplace', cur, ops), nontrivial=True)
            try:
                c = w.cur.copy()
                if get_str(c) != get_str(w.cur) or deep(c) != deep(w.cur) or not (c == w.cur):
                    ff.append((0, 'copy-differs', f'the molecule differs from its own copy: {get_str(w.cur)!r} vs {get_str(c)!r}'))
            except Exception as ex:  # noqa
                ff.append((0, 'copy-differs', f'copy / comparison raised {type(ex).__name__}'))
            if any(exns) or hook.findings or ff:
                hf = hook.findings + [(i, 'raises', f'{o} raised {e}') for i, (o, e) in enumerate(zip(ops, exns)) if e]
                i = min(f[0] for f in hf) if hf else len(ops) - 1
                report(ck, cur, 'CN@40', list(ops[:i + 1]), [f for f in hf if f[0] == i], [] if hf else ff, 'explicify / implicify')
            else:
                ck.count('search:hydrogens-inplace:clean-sequences')
    # renumbering a cage whose SSSR is a choice (known finding remap-ring-marks-sssr-choice)
    for cur, other, ops in (('C1CC2CC1C2', 'CN@10', (('remap', ((1, 3), (3, 1))),)), ('C1CC2CC1C2', 'CN@10', (('remap', ((1, 9),)),))):
        w = fresh_world(cur, other)
        hook = SearchHook()
        run_ops(w, ops, hook)
        ff = final_findings(w, hook)
        ck.case(('remap-cage', ops), nontrivial=True)
        if hook.findings or ff:
            report(ck, cur, other, list(ops), hook.findings, [] if hook.findings else ff, 'renumbered cage')
    # reactions
    for rs in ('CC(=O)O.OCC>>CC(=O)OCC.O', 'C=C>[Pt]>CC'):
        r = smiles(rs)
        for m in r.molecules():
            normalise(m)
        before = [deep(m) for m in r.molecules()]
        s0 = str(r)
        c = r.copy()
        ck.case(('reaction', rs), nontrivial=True)
        if any(x is y for x, y in zip(c.molecules(), r.molecules())) or [deep(m) for m in c.molecules()] != before or str(c) != s0:
            ck.counterexample(f'reaction-copy:{rs}', 'ReactionContainer.copy() shares molecules with / differs from its source', {'reaction': rs},
                              str(c), s0, 'deep comparison', replay_py=f'from chython import smiles\nr = smiles({rs!r}); c = r.copy(); print(r, c)')
        # editing a molecule of the copy
        cm = next(iter(c.molecules()))
        try:
            cm.add_atom('N')
        except Exception as e:  # noqa
            ck.counterexample(f'reaction-copy-editable:{rs}', f'a molecule of a reaction copy cannot be edited: add_atom raised {type(e).__name__}',
                              {'reaction': rs}, type(e).__name__, 'no exception', 'contract',
                              replay_py=f'from chython import smiles\nr = smiles({rs!r}); c = r.copy(); next(iter(c.molecules())).add_atom("N")')
            continue
        if [deep(m) for m in r.molecules()] != before:
            ck.counterexample(f'reaction-copy-independence:{rs}', 'editing a molecule of a reaction copy changed the source reaction', {'reaction': rs},
                              'source changed', 'source unchanged', 'deep comparison')
        c.flush_cache()
        if c.__dict__ or any(m.__dict__ for m in c.molecules()):
            ck.counterexample(f'reaction-flush:{rs}', 'ReactionContainer.flush_cache() left cached entries', {'reaction': rs},
                              sorted(c.__dict__), [], 'by construction')
        if str(c) == s0:
            ck.counterexample(f'reaction-stale:{rs}', 'reaction string stale after editing a molecule and flush_cache()', {'reaction': rs},
                              str(c), 'a different string', 'by construction')


def run(ck):
    quick = ck.tier == 'quick'
    ck.trusted += ['correspondence runner harness/checks/C13.py + harness/coqcases.py (prints observations of live objects as Cache.obs terms)',
                   'CachedMethods shim harness/boot.py', 'CPython 3.12.1 (object identity via id(), functools.cached_property storing into __dict__)']
    ck.assumptions += [
        'coq/model/Cache.v is a hand-written model of Graph/MoleculeContainer mutators, flush_cache variants, fix_structure/calc_labels/'
        'calc_implicit control flow, copy/substructure/union/remap, __enter__/__exit__ and the patch step of Standardize.__standardize; '
        'the model mirrors the code after the fix: commits of known_findings.d/C13.json',
        'derived values are modelled as snapshots of what they were computed from; the derive functions themselves (SMILES, SSSR, valence '
        'rules, stereo perception) are universally quantified in the theorems and are NOT modelled: that their result depends only on the '
        'view (for the ring family: only on the non-special connectivity) is a hypothesis, exercised by the rebuild-from-scratch search',
        'atoms are held by value in the model; that atom objects are never shared between live molecules is checked on the implementation '
        'at every step of the correspondence',
        'fix_stereo is modelled only through its cache effect; stereo labels after edits, ring marks (_in_ring/_ring_sizes) and reaction '
        'containers are covered by the search only']
    ck.extra['rule'] = ('correspondence: every sequence over a 12-operation alphabet up to length 3 (thorough: 4) on 3 seed molecules, plus a pool of 38 '
                        'malformed / remaining operations at depth 1-2 (quick: paired with the alphabet; thorough: with each other too) and sampled at depth 3 (300 / 1000 per seed), plus random state-aware sequences (about 12% malformed '
                        'arguments) on Kekule forms of corpus molecules compared after every step; every case is a distinct history and is '
                        'non-trivial (it compares atoms, bonds, cached keys, _changed, _backup, staleness, identity partition). search: the same runs, '
                        'compared with a molecule rebuilt from scratch after every history (random: after every step), plus stereo seeds and reactions')
    import time
    t0 = time.time()
    proved = common.standard_proof_steps(ck, translators=['cache', 'cacheops'])
    t1 = time.time()
    cr = Corr(ck)
    explore_exhaustive(cr, 3 if quick else 4, 3)
    n_ex = len(cr.cases)
    t2 = time.time()
    ok1, failing1, log1 = corr_run(cr, 'c13')
    t3 = time.time()
    cr2 = Corr(ck)
    explore_random(cr2, 50 if quick else 400, 12 if quick else 25)
    t4 = time.time()
    ok2, failing2, log2 = corr_run(cr2, 'c13r', shard=7 if quick else 25)
    t5 = time.time()
    ck.extra['phase_seconds'] = {'proof steps': round(t1 - t0, 1), 'exhaustive histories on the real code (+ search oracles)': round(t2 - t1, 1),
                                 'model on exhaustive histories (coqc vm_compute)': round(t3 - t2, 1),
                                 'random histories on the real code (+ search oracles)': round(t4 - t3, 1),
                                 'model on random histories': round(t5 - t4, 1)}
    ok = ok1 and ok2
    bad = [cr.meta[i] for i in failing1] + [cr2.meta[i] for i in failing2]
    ck.oblige(f'correspondence: real MoleculeContainer == Cache model on {n_ex} exhaustive histories and {len(cr2.cases)} random ones',
              ok and not bad, 'correspondence', (log1 + log2)[-1500:] or repr(bad[:5]))
    shared = cr.shared_atoms + cr2.shared_atoms
    ck.oblige('atom objects are never shared between live molecules (justifies by-value atoms in the model)', not shared, 'correspondence',
              repr(shared[:3]))
    ck.extra['correspondence_cases'] = len(cr.cases) + len(cr2.cases)
    ck.sample({'model_call': cr.cases[len(cr.cases) // 2][:1500].replace('\x02', '').replace('\x03', ''), 'meta': repr(cr.meta[len(cr.meta) // 2])})
    if cr2.cases:
        ck.sample({'model_call': cr2.cases[0][:1500].replace('\x02', '').replace('\x03', ''), 'meta': repr(cr2.meta[0])[:600]})
    if not ok or bad:
        nfound = directed_search(ck, bad, 60 if quick else 600)
        ck.extra['directed_search_found'] = nfound
        ck.unchecked('correspondence Cache model vs chython MoleculeContainer', (log1 + log2)[-1500:], [repr(x)[:600] for x in bad[:20]])
    if shared:
        ck.unchecked('atom objects shared between live molecules', repr(shared[:3]))
    search_stereo_and_reactions(ck)
    ck.extra['proved'] = proved
    ck.extra['tied'] = ok and not bad
