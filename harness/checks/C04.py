"""C04 implicit hydrogens / valence errors / totals.

proof:          coq/props/C04.v over the regenerated element tables (Gen.Elements)
correspondence: (a) compiled rule tables of all 118 elements, (b1) calc_implicit / check_implicit on the exhaustive organic
                environment space built as real molecules, (b1') the same on the exhaustive aromatic space (ordered neighbour
                lists), (b2) per-atom and per-molecule observations on rule-directed, random, malformed and corpus molecules
                (hydrogens, labels, fix_structure, brutto, charge, radical, mass, check_valence), (c) union / substructure /
                split: whole result molecules (atoms in order, hydrogen counts, bonds) and exceptions, (d) the operations that write
                hydrogen counts themselves: Standardize.implicify_hydrogens against its Gallina mirror (whole result), results of
                canonicalize (keep_kekule / fix_tautomers on and off) and explicify + implicify judged by the model (stored_ok),
                (e) results of several edits inside one `with mol:` / _skip_calculation block: touched atoms fresh, stored counts valid,
                (f) results of the rule engine of standardize() on the instantiation of every rule of its three tables (2..4 copies sharing the
                Any-atom, seed-chosen metals) and on covalently drawn metal-organic complexes: atoms with a changed valence state fresh;
                Element.atomic_mass of every element with every tabulated isotope label; molecules with seed-chosen labels
translated:     tools/gen_valence_bodies.py (bodies of _compiled_valence_rules / valence_rules / atomic_mass / the totals -> Gen.ValenceBodies),
                tools/gen_valence_src.py (branch structure / constants of calc_implicit, check_implicit, implicify_hydrogens, hs of __standardize)
search:         directed table search (every tabulated rule as a molecule: electron parity from the atomic number, octet rule,
                RDKit on the bare graph), octet-rule oracle on the exhaustive space, closed form of the aromatic branch, RDKit atom
                by atom (total Hs), aromatic atoms vs their Kekule form vs RDKit, formula / charge / mass re-derived from the atoms
                and from RDKit, reported atoms == atoms without any accepted hydrogen count, additivity over union and split,
                substructure vs rebuild from scratch, invariance under renumbering, every count stored by canonicalize /
                implicify_hydrogens is a valence state (check_implicit) and RDKit's count; isotope-labelled atoms of every element (exact table
                sum, RDKit isotope masses, mass number); every other in-place operation (neutralize, standardize_charges, salts, coordinate
                bonds, resonance, isotopes) leaves valence states - all on the real code, independent of the model."""
import collections
import concurrent.futures as cf
import itertools
import os
import random
import re
from decimal import Decimal
from fractions import Fraction

import boot  # noqa
import common
import coqcases
import coqmol
import corpus
from coqfmt import zraw, b, lst, opt, tup, s as cstr

replay = common.generic_replay

EXN = {'KeyError': 'KeyError', 'ValueError': 'ValueError', 'IndexError': 'IndexError', 'TypeError': 'TypeError',
       'StopIteration': 'StopIteration', 'AttributeError': 'AttributeError', 'ValenceError': 'ValenceError'}
IMPORTS = 'Graph PeriodicTable Valence'
EXTRA = 'From Gen Require Import Elements.\nOpen Scope string_scope.'

ORGANIC = ['B', 'C', 'N', 'O', 'F', 'Si', 'P', 'S', 'Cl', 'Br', 'I', 'Se']
NEIGHBOURS = [6, 7, 8, 16, 9, 17]
BOND_TYPES = [(o, z) for o in (1, 2, 3) for z in NEIGHBOURS]
STATES = [(c, r) for c in range(-2, 3) for r in (False, True)]
ENVS = [e for k in range(5) for e in itertools.combinations_with_replacement(BOND_TYPES, k)]

# octet rule, written independently of chython and of the Coq text
OCTET_ELECTRONS = {'B': 3, 'C': 4, 'Si': 4, 'N': 5, 'P': 5, 'O': 6, 'S': 6, 'Se': 6, 'F': 7, 'Cl': 7, 'Br': 7, 'I': 7}
OCTET_SUPPORTED = {('B', -1, False), ('B', 0, False), ('B', 0, True),
                   ('C', -1, False), ('C', 0, False), ('C', 0, True), ('C', 1, False),
                   ('N', -1, False), ('N', 0, False), ('N', 0, True), ('N', 1, False),
                   ('O', -2, False), ('O', -1, False), ('O', 0, False), ('O', 0, True), ('O', 1, False),
                   ('F', -1, False), ('F', 0, False), ('Si', 0, False),
                   ('P', -1, False), ('P', 0, False), ('P', 0, True), ('P', 1, False),
                   ('S', -2, False), ('S', -1, False), ('S', 0, False), ('S', 0, True),
                   ('Cl', -1, False), ('Cl', 0, False), ('Br', -1, False), ('Br', 0, False), ('I', -1, False), ('I', 0, False),
                   ('Se', -2, False), ('Se', -1, False), ('Se', 0, False)}
HYPERVALENT = {('P', 0, False), ('P', 0, True), ('S', 0, False), ('S', 0, True), ('S', 1, False), ('Se', 0, False),
               ('Cl', 0, False), ('Br', -1, False), ('Br', 0, False), ('I', -1, False), ('I', 0, False)}


def octet(sym, chg, rad, env):
    n = OCTET_ELECTRONS[sym] - chg
    bonds = n if n <= 4 else 8 - n
    h = bonds - (1 if rad else 0) - sum(o for o, _ in env)
    return h if h >= 0 else None


# ---------------------------------------------------------------------------------------------------------------
# printing

def pyres(fn, fmt):
    try:
        return 'Ok ' + fmt(fn())
    except Exception as e:
        return 'Err ' + EXN.get(type(e).__name__, 'OtherError')


def ekey(k):
    return f'({zraw(k[0])}, {zraw(k[1])})'


def rule_term(r):
    st, d, h = r
    return f'(mkRule {lst(sorted(st), ekey)} {lst(list(d.items()), lambda kv: tup(ekey(kv[0]), zraw(kv[1])))} {zraw(h)})'


def rtable_term(t):
    return lst(list(t.items()), lambda kv: tup(f'({zraw(kv[0][0])}, {b(kv[0][1])}, {zraw(kv[0][2])})', lst(kv[1], rule_term)))


def calc_code(h):
    return 0 if h is None else (h + 1 if 0 <= h <= 5 else 7)


def check_mask(m, n):
    mask = 0
    for h in range(6):
        try:
            if m.check_implicit(n, h):
                mask += 1 << h
        except Exception:
            mask += 64
    return mask


def exact(x):
    """the decimal a float literal of the tables denotes (shortest repr == its source spelling)"""
    return Fraction(Decimal(repr(x)))


def exact_atomic_mass(a):
    mass = a.isotopes_masses
    if a.isotope is None:
        return sum(exact(x) * exact(mass[i]) for i, x in a.isotopes_distribution.items())
    return exact(mass[a.isotope])


def exact_mass(m):
    from chython.periodictable import H
    hm = exact_atomic_mass(H())
    tot = Fraction(0)
    for _, a in m.atoms():
        am = exact_atomic_mass(a)
        if a.implicit_hydrogens is None:
            raise TypeError
        tot += am + a.implicit_hydrogens * hm
    return tot


def e24(fr):
    v = fr * 10 ** 24
    assert v.denominator == 1, fr
    return int(v)


# ---------------------------------------------------------------------------------------------------------------
# (a) compiled tables

AMASS_COQ = """
Definition amass_case (num : Z) (iso : option Z) (got : pyres Z) : bool :=
  pyres_eqb (fun m f => (Z.abs (m - f) * 1000000000 <=? m)%Z) (atomic_mass_e24 num iso) got."""


def isotope_labels(cls):
    """None (no label) and every isotope label the element accepts (keys of its isotope tables, the most common one included)"""
    e = cls()
    return [None] + sorted(set(e.isotopes_masses) | set(e.isotopes_distribution))


def labelled_copy(m, rng, k=3):
    """a copy of the molecule in which up to k atoms carry an isotope label their element tabulates: the most common isotope
    (mdl_isotope, where tabulated) as often as any other"""
    c = m.copy()
    atoms = [n for n, a in c.atoms()]
    for n in rng.sample(atoms, min(k, len(atoms))):
        a = c._atoms[n]
        tab = sorted(set(a.isotopes_masses) & set(a.isotopes_distribution))
        if not tab:
            continue
        a.isotope = a.mdl_isotope if (a.mdl_isotope in tab and rng.random() < 0.5) else rng.choice(tab)
    c.flush_cache()
    return c

def corr_tables(ck):
    from chython.periodictable import Element
    from chython.exceptions import ValenceError
    rng = random.Random(f'{ck.seed}:c04:tables')
    cases, meta = [], []
    classes = Element.__subclasses__()
    n_rules = 0
    for c in classes:
        e = c()
        sym = c.__name__
        got = pyres(lambda: e._compiled_valence_rules, rtable_term)
        cases.append(f'pyres_eqb rtable_eqb (compiled_of {cstr(sym)}) ({got})')
        meta.append(('table', sym))
        try:
            n_rules += sum(len(v) for v in e._compiled_valence_rules.values())
        except Exception:
            pass
        ck.case(('table', sym))
        ck.count('tables')
    nl = 1500 if ck.tier == 'quick' else 15000
    for i in range(nl):
        c = rng.choice(classes)
        chg, rad, v = rng.randint(-4, 4), rng.random() < 0.3, rng.randint(-1, 9)
        if rng.random() < 0.5:  # aim at an existing key
            keys = list(c()._compiled_valence_rules)
            if keys:
                chg, rad, v = rng.choice(keys)
                if rng.random() < 0.3:
                    v += rng.choice([-1, 1])
        e = c(charge=chg, is_radical=rad)
        try:
            r = e.valence_rules(v)
            got = 'Ok ' + lst(r, rule_term)
        except ValenceError:
            got = 'Err ValenceError'
        except Exception as ex:
            got = 'Err ' + EXN.get(type(ex).__name__, 'OtherError')
        cases.append(f'match from_symbol {cstr(c.__name__)} with Some e => pyres_eqb (list_eqb rule_eqb) '
                     f'(valence_rules e {zraw(chg)} {b(rad)} {zraw(v)}) ({got}) | None => false end')
        meta.append(('valence_rules', c.__name__, chg, rad, v, got[:60]))
        ck.case(('vr', c.__name__, chg, rad, v), nontrivial=got.startswith('Ok'))
        ck.count('valence_rules:' + ('rules' if got.startswith('Ok') else got.split()[1]))
    # Element.atomic_mass of every element, unlabelled and with EVERY tabulated isotope label (the most common one included): the
    # float of the code against the exact decimal of the model (relative 1e-9), and the exceptions
    for c in classes:
        for iso in isotope_labels(c):
            def am():
                return c(isotope=iso).atomic_mass if iso is not None else c().atomic_mass
            got = pyres(am, lambda v: zraw(int(Fraction(v) * 10 ** 24)))
            cases.append(f'amass_case {zraw(c().atomic_number)} {opt(iso, zraw)} ({got})')
            meta.append(('atomic_mass', c.__name__, iso, got))
            ck.case(('atomic_mass', c.__name__, iso), nontrivial=iso is not None)
            ck.count('atomic_mass:' + ('unlabelled' if iso is None else 'the common (mdl) isotope' if iso == c().mdl_isotope else 'another isotope'))
    ok, failing, log = coqcases.run_cases('c04t', IMPORTS, cases, extra=EXTRA + AMASS_COQ, shard=300)
    good = ok and not failing
    ck.oblige('correspondence: Element._compiled_valence_rules of all 118 elements and valence_rules lookups == Coq model '
              '(keys and rule lists in insertion order); Element.atomic_mass of every element unlabelled and with every tabulated isotope label == '
              'Valence.atomic_mass_e24 (relative 1e-9)', good, 'correspondence', log or str([meta[i] for i in failing[:8]]))
    ck.extra['compiled_rule_entries'] = n_rules
    ck.sample({'model_call': cases[93][:300], 'meta': repr(meta[93])})
    if not good:
        ck.unchecked('correspondence Valence.compiled_rules vs Element._compiled_valence_rules', log[-1500:],
                     [repr(meta[i]) for i in failing[:20]])
    return good


# ---------------------------------------------------------------------------------------------------------------
# (b1) exhaustive organic environment space on real molecules

ALL_ENVS_COQ = """Definition bond_types : list (Z * Z) := flat_map (fun o => map (fun z => (o, z)) [6; 7; 8; 16; 9; 17]) [1; 2; 3].
Fixpoint multisets (types : list (Z * Z)) (k : nat) : list env :=
  match types with
  | [] => match k with O => [[]] | S _ => [] end
  | t :: r => (fix with_t (k : nat) : list env :=
                 match k with
                 | O => [[]]
                 | S k' => map (cons t) (with_t k') ++ multisets r (S k')
                 end) k
  end.
Definition all_envs : list env := flat_map (multisets bond_types) [0; 1; 2; 3; 4]%nat.
"""


def _sweep_worker(bounds):
    """for every environment of the slice: a real molecule (built through add_atom / add_bond, i.e. the whole
    fix_structure pipeline), then every (element, charge, radical) state of the centre: calc_implicit, check_implicit(0..5)"""
    import boot  # noqa
    from chython import MoleculeContainer
    from chython.periodictable import Element
    lo, hi = bounds
    atoms = {sym: [Element.from_symbol(sym)(charge=c, is_radical=r) for c, r in STATES] for sym in ORGANIC}
    out = []
    pipeline_bad = []
    octet_bad = []
    for idx in range(lo, hi):
        env = ENVS[idx]
        m = MoleculeContainer()
        m.add_atom('C')
        for o, z in env:
            n = m.add_atom(z)
            m.add_bond(1, n, o)
        stored = m._atoms[1].implicit_hydrogens
        row = []
        for sym in ORGANIC:
            dig = 0
            for a, (c, r) in zip(atoms[sym], STATES):
                m._atoms[1] = a
                try:
                    m.calc_implicit(1)
                    h = a.implicit_hydrogens
                    code = calc_code(h)
                except Exception:
                    h = 'raised'
                    code = 7
                mask = check_mask(m, 1)
                dig = dig * 512 + code * 64 + mask
                if sym == 'C' and c == 0 and not r and h != stored:
                    pipeline_bad.append((idx, stored, h))
                o8 = octet(sym, c, r, env)
                st = (sym, c, r)
                if h == 'raised' or (o8 is not None and h is not None and h != o8) or \
                        (o8 is not None and h is None and st in OCTET_SUPPORTED) or \
                        (o8 is None and h is not None and st not in HYPERVALENT):
                    octet_bad.append((idx, sym, c, r, h, o8, 'calc_implicit'))
                elif st not in HYPERVALENT:
                    # check_implicit accepts nothing but the octet count (and 0 on a bare atom: elemental state), and accepts
                    # the octet count in every supported state
                    allowed = ((1 << o8) if o8 is not None and o8 <= 5 else 0) | (1 if not env else 0)
                    if (mask & ~allowed) or (st in OCTET_SUPPORTED and o8 is not None and o8 <= 5 and not (mask >> o8) & 1):
                        octet_bad.append((idx, sym, c, r, [hh for hh in range(7) if (mask >> hh) & 1], o8, 'check_implicit'))
            row.append(dig)
        out.append(row)
    return lo, out, pipeline_bad, octet_bad


def env_smiles(sym, c, r, env):
    """a SMILES-like description for reports"""
    return {'centre': sym, 'charge': c, 'radical': r, 'bonds': [{'order': o, 'neighbour_atomic_number': z} for o, z in env]}


def corr_exhaustive(ck):
    nw = max(2, min(8, (os.cpu_count() or 4) // 2))
    step = 200
    slices = [(i, min(i + step, len(ENVS))) for i in range(0, len(ENVS), step)]
    rows = [None] * len(ENVS)
    pipeline_bad, octet_bad = [], []
    with cf.ProcessPoolExecutor(max_workers=nw) as ex:
        for lo, out, pb, ob in ex.map(_sweep_worker, slices):
            rows[lo:lo + len(out)] = out
            pipeline_bad += pb
            octet_bad += ob
    n_cases = len(ENVS) * len(ORGANIC) * len(STATES)
    ck.count('exhaustive:environments', len(ENVS))
    ck.count('exhaustive:(element,charge,radical,environment) states', n_cases)
    ck.evaluations += n_cases * 7
    # distinct non-trivial = states in which the implementation finds a hydrogen count
    nontriv = 0
    for row in rows:
        for dig in row:
            for k in range(len(STATES)):
                if (dig >> (9 * k + 6)) & 7:
                    nontriv += 1
    ck.count('exhaustive:states with a hydrogen count', nontriv)
    for i in range(nontriv):
        ck.distinct.add(('exh', i))
    # model side: one Coq file per element
    states_term = lst(STATES, lambda cr: tup(zraw(cr[0]), b(cr[1])))

    def one(j):
        sym = ORGANIC[j]
        # the enumeration of the space is restated here (same text as Proofs.ValenceProofs.all_envs) so that the tie does not
        # depend on the proof file: when a table theorem breaks, the correspondence still runs
        text = ('From Coq Require Import ZArith List String Bool.\nFrom Model Require Import PyBase Graph PeriodicTable Valence.\n'
                'From Gen Require Import Elements.\nImport ListNotations.\nOpen Scope Z_scope.\n' + ALL_ENVS_COQ +
                f'Definition expected : list Z := {lst([rows[i][j] for i in range(len(ENVS))], zraw, per_line=4)}.\n'
                f'Definition result : list (nat * Z) := match from_symbol {cstr(sym)} with\n'
                f'  | Some e => let t := compiled_rules e in firstn 30 (mismatches 0 (map (env_digest t (e_num e) {states_term}) all_envs) expected)\n'
                '  | None => [(0%nat, -2)] end.\nEval vm_compute in result.\n')
        ok, out = common.coq_eval(f'c04x_{j}', text, 900)
        flat = out.replace('\n', ' ')
        if not ok or ': list (nat * Z)' not in flat:
            return j, None, out[-1500:]
        mm = re.findall(r'\((\d+)%nat,\s*\(?(-?\d+)\)?\)', flat)
        return j, [(int(i), int(v)) for i, v in mm], ''

    good = True
    details = []
    with cf.ThreadPoolExecutor(max_workers=nw) as ex:
        for j, mis, log in ex.map(one, range(len(ORGANIC))):
            if mis is None:
                good = False
                details.append(f'{ORGANIC[j]}: model evaluation failed: {log}')
                continue
            for i, model_dig in mis:
                good = False
                if i >= len(ENVS):
                    details.append(f'{ORGANIC[j]}: enumeration length differs')
                    continue
                real_dig = rows[i][j]
                for k, (c, r) in enumerate(reversed(STATES)):
                    rc, mc = (real_dig >> (9 * k)) & 511, (model_dig >> (9 * k)) & 511
                    if rc != mc:
                        details.append(repr({'atom': env_smiles(ORGANIC[j], c, r, ENVS[i]),
                                             'implementation (calc code, check mask)': (rc >> 6, rc & 63),
                                             'model (calc code, check mask)': (mc >> 6, mc & 63)}))
    if pipeline_bad:
        good = False
        details += [f'add_atom/add_bond pipeline stored {st} but calc_implicit gives {h} for carbon with {ENVS[i]}' for i, st, h in pipeline_bad[:5]]
    ck.oblige(f'correspondence: calc_implicit / check_implicit(h=0..5) on the exhaustive organic space ({n_cases} atom states on real molecules) == Coq model',
              good, 'correspondence', '\n'.join(details[:10]))
    ck.sample({'environment': ENVS[4000], 'digest of the 10 (charge, radical) states of N (base 512: calc code*64 + check mask)': rows[4000][2]})
    if not good:
        ck.unchecked('correspondence Valence.calc_env/check_env vs MoleculeContainer.calc_implicit/check_implicit (exhaustive space)',
                     '\n'.join(details[:10]), details[:20])
    # independent oracle on the same real results (search layer)
    for idx, sym, c, r, h, o8, fn in octet_bad[:12]:
        env = ENVS[idx]
        ck.counterexample(f'octet:{fn}:{sym}:{c}:{int(r)}:{"".join(f"{o}-{z}." for o, z in env)}',
                          f'{fn}: hydrogen count(s) of an organic atom differ from the octet rule outside the listed deliberate differences',
                          env_smiles(sym, c, r, env), h, o8, 'octet rule (independent of the tables) + lists of supported / hypervalent states',
                          replay_py=replay_env(sym, c, r, env))
    ck.extra['octet_oracle_cases'] = n_cases
    return good


def replay_env(sym, c, r, env):
    return ('from chython import MoleculeContainer\nfrom chython.periodictable import Element\nm = MoleculeContainer()\n'
            f'm.add_atom(Element.from_symbol({sym!r})(charge={c}, is_radical={r}))\n'
            f'for o, z in {list(env)!r}:\n    m.add_bond(1, m.add_atom(z), o)\n'
            'print(m.atom(1).implicit_hydrogens, [m.check_implicit(1, h) for h in range(6)])')


# ---------------------------------------------------------------------------------------------------------------
# (b1') exhaustive aromatic environment space on real molecules

AROM_A9 = [(4, 6), (4, 7), (1, 6), (1, 8), (2, 8), (2, 6), (3, 6), (8, 26), (1, 1)]
AROM_A3 = [(4, 6), (1, 6), (2, 8)]
AROM_SPACE = [e for k in (1, 2, 3, 4) for e in itertools.product(AROM_A9, repeat=k) if any(o == 4 for o, _ in e)] + \
             [e for e in itertools.product(AROM_A3, repeat=5) if any(o == 4 for o, _ in e)]
AROM_CENTRES = ['C', 'N', 'O', 'S', 'B', 'P', 'Si', 'H', 'Fe']


def arom_expected(sym, c, r, env):
    """the delocalised branch as its comments describe it (H-Ar, R-Ar, condensed rings, invalid aromaticity; only neutral
    carbon), written apart from the model"""
    if sym == 'H':
        return 0
    if sym != 'C' or c or r:
        return None
    n4 = sum(1 for o, _ in env if o == 4)
    sg = sum(o for o, _ in env if o not in (4, 8))
    if n4 == 2:
        return {0: 1, 1: 0}.get(sg)
    if n4 == 3:
        return 0 if sg == 0 else None
    return None


def _arom_worker(bounds):
    import boot  # noqa
    from chython import MoleculeContainer
    from chython.periodictable import Element
    lo, hi = bounds
    atoms = {sym: [Element.from_symbol(sym)(charge=c, is_radical=r) for c, r in STATES] for sym in AROM_CENTRES}
    out, bad = [], []
    for idx in range(lo, hi):
        env = AROM_SPACE[idx]
        m = MoleculeContainer()
        m.add_atom('C')
        for o, z in env:
            m.add_bond(1, m.add_atom(z), o)
        stored = m._atoms[1].implicit_hydrogens
        row = []
        for sym in AROM_CENTRES:
            dig = 0
            for a, (c, r) in zip(atoms[sym], STATES):
                m._atoms[1] = a
                try:
                    m.calc_implicit(1)
                    h = a.implicit_hydrogens
                    code = calc_code(h)
                except Exception:
                    h = 'raised'
                    code = 7
                mask = check_mask(m, 1)
                dig = dig * 512 + code * 64 + mask
                exp = arom_expected(sym, c, r, env)
                if h != exp or mask != (1 if sym == 'H' else 0) or (sym == 'C' and c == 0 and not r and stored != h):
                    bad.append((idx, sym, c, r, h, exp, mask, stored))
            row.append(dig)
        out.append(row)
    return lo, out, bad


def corr_aromatic(ck):
    nw = max(2, min(8, (os.cpu_count() or 4) // 2))
    step = 200
    slices = [(i, min(i + step, len(AROM_SPACE))) for i in range(0, len(AROM_SPACE), step)]
    rows = [None] * len(AROM_SPACE)
    bad = []
    with cf.ProcessPoolExecutor(max_workers=nw) as ex:
        for lo, out, b_ in ex.map(_arom_worker, slices):
            rows[lo:lo + len(out)] = out
            bad += b_
    n_cases = len(AROM_SPACE) * len(AROM_CENTRES) * len(STATES)
    ck.count('aromatic:ordered neighbour lists', len(AROM_SPACE))
    ck.count('aromatic:(element,charge,radical,neighbour list) states', n_cases)
    ck.evaluations += n_cases * 7
    nontriv = sum(1 for i, row in enumerate(rows) for j, dig in enumerate(row) if AROM_CENTRES[j] == 'C' and (dig >> (9 * 5 + 6)) & 7)
    ck.count('aromatic:neutral carbon states with a hydrogen count', nontriv)
    for i in range(nontriv):
        ck.distinct.add(('arom', i))
    states_term = lst(STATES, lambda cr: tup(zraw(cr[0]), b(cr[1])))

    def one(j):
        sym = AROM_CENTRES[j]
        text = ('From Coq Require Import ZArith List String Bool.\nFrom Model Require Import PyBase Graph PeriodicTable Valence ValenceArom.\n'
                'From Gen Require Import Elements.\nImport ListNotations.\nOpen Scope Z_scope.\n'
                f'Definition expected : list Z := {lst([rows[i][j] for i in range(len(AROM_SPACE))], zraw, per_line=4)}.\n'
                f'Definition result : list (nat * Z) := match from_symbol {cstr(sym)} with\n'
                f'  | Some e => let t := compiled_rules e in firstn 30 (mismatches 0 (map (env_digest t (e_num e) {states_term}) arom_space) expected)\n'
                '  | None => [(0%nat, -2)] end.\nEval vm_compute in result.\n')
        ok, out = common.coq_eval(f'c04a_{j}', text, 900)
        flat = out.replace('\n', ' ')
        if not ok or ': list (nat * Z)' not in flat:
            return j, None, out[-1500:]
        mm = re.findall(r'\((\d+)%nat,\s*\(?(-?\d+)\)?\)', flat)
        return j, [(int(i), int(v)) for i, v in mm], ''

    good = True
    details = []
    with cf.ThreadPoolExecutor(max_workers=nw) as ex:
        for j, mis, log in ex.map(one, range(len(AROM_CENTRES))):
            if mis is None:
                good = False
                details.append(f'{AROM_CENTRES[j]}: model evaluation failed: {log}')
                continue
            for i, model_dig in mis:
                good = False
                if i >= len(AROM_SPACE):
                    details.append(f'{AROM_CENTRES[j]}: enumeration length differs')
                    continue
                real_dig = rows[i][j]
                for k, (c, r) in enumerate(reversed(STATES)):
                    rc, mc = (real_dig >> (9 * k)) & 511, (model_dig >> (9 * k)) & 511
                    if rc != mc:
                        details.append(repr({'atom': env_smiles(AROM_CENTRES[j], c, r, AROM_SPACE[i]),
                                             'implementation (calc code, check mask)': (rc >> 6, rc & 63),
                                             'model (calc code, check mask)': (mc >> 6, mc & 63)}))
    ck.oblige(f'correspondence: calc_implicit / check_implicit(h=0..5) on the exhaustive aromatic space ({n_cases} atom states on real molecules, '
              'every neighbour order) == Coq model', good, 'correspondence', '\n'.join(details[:10]))
    ck.sample({'aromatic neighbour list': AROM_SPACE[700], 'digest of the 10 (charge, radical) states of C': rows[700][0]})
    if not good:
        ck.unchecked('correspondence Valence.calc_env/check_env vs MoleculeContainer.calc_implicit/check_implicit (aromatic space)',
                     '\n'.join(details[:10]), details[:20])
    capped = Capped(ck, 8)
    for idx, sym, c, r, h, exp, mask, stored in bad:
        env = AROM_SPACE[idx]
        capped.counterexample(f'aromatic:{sym}:{c}:{int(r)}:{"".join(f"{o}-{z}." for o, z in env)}',
                              'hydrogen count of an atom with aromatic bonds is not the documented one (neutral carbon: 2 aromatic bonds -> 1 H, 2 aromatic + one '
                              'single bond or 3 aromatic bonds -> 0 H, anything else and any other atom -> None; check_implicit refuses aromatic atoms; '
                              'add_bond stores what calc_implicit gives)', env_smiles(sym, c, r, env),
                              {'calc_implicit': h, 'check_implicit mask': mask, 'stored by add_bond': stored}, exp,
                              'closed form written from the comments of calc_implicit', replay_py=replay_env(sym, c, r, env))
    return good


# ---------------------------------------------------------------------------------------------------------------
# (b2) whole molecules

def observe(m, extra_ids=(), labels=True, totals=True, recalc=True, stored=False, live=False):
    """all observations of one real molecule as a Coq boolean expression over its printed form (the molecule itself
    is not modified: every mutating call works on a copy)"""
    parts = []
    c = m.copy()
    lab_ok = False
    if labels:
        try:
            c.calc_labels()
            lab_ok = True
        except Exception:
            lab_ok = False
    for n in list(m._atoms) + list(extra_ids):
        def calc():
            c.calc_implicit(n)
            return calc_code(c._atoms[n].implicit_hydrogens)
        parts.append(f'hyd_case g {zraw(n)} ({pyres(calc, zraw)}) {check_mask(m, n)}')
        if lab_ok and n in c._atoms:
            a = c._atoms[n]
            parts.append(f'lab_case g {zraw(n)} {a.neighbors} {a.heteroatoms} {a.hybridization} {a.explicit_hydrogens}')
    if totals:
        t = m if live else m.copy()      # live: the totals as THIS object answers them now (whatever it has cached), not those of a fresh copy
        br = pyres(lambda: dict(t.brutto), lambda d: lst(list(d.items()), lambda kv: tup(cstr(kv[0]), zraw(kv[1]))))
        try:
            mass_f = t.molecular_mass  # float(t) is the same value except on the empty molecule (known finding float-empty)
            mass_x = exact_mass(m)
            if abs(mass_f - float(mass_x)) > 1e-9 * max(1.0, abs(mass_f)):
                parts.append('false (* molecular_mass (float) differs from the exact sum over the live tables *)')
            mass = f'Ok {zraw(e24(mass_x))}'
        except Exception as e:
            mass = 'Err ' + EXN.get(type(e).__name__, 'OtherError')
        parts.append(f'totals_case g ({br}) {zraw(int(t))} {b(t.is_radical)} ({mass}) {lst(t.check_valence(), zraw)}')
    if recalc:
        f = m.copy()
        try:
            f._changed = None
            f.fix_structure()
            parts.append(f'recalc_case g {lst([a.implicit_hydrogens for _, a in f.atoms()], lambda h: opt(h, zraw))}')
        except Exception:
            pass
    if stored:
        parts.append('stored_ok g')
    return f'(let g := {coqmol.mol_term(m)} in ' + ' && '.join(parts) + ')'


def build(centre, env, extra=()):
    """centre: Element instance; env: [(order, symbol-or-number)]"""
    from chython import MoleculeContainer
    m = MoleculeContainer()
    m.add_atom(centre)
    for o, e in list(env) + list(extra):
        n = m.add_atom(e)
        m.add_bond(1, n, o)
    if any(o == 8 for o, _ in list(env) + list(extra)):
        # add_bond(.., 8) returns before fix_structure and leaves Bond._in_ring unset, so that copy() raises AttributeError
        # (a defect of the edit machinery, property C13, not of the hydrogen model): refresh the labels explicitly
        m.flush_cache()
        m.calc_labels()
    return m


def gen_rule_directed(ck, rng):
    """one molecule per tabulated rule of every element (the environment the rule names), plus a perturbed copy"""
    from chython.periodictable import Element
    out = []
    for cls in Element.__subclasses__():
        e0 = cls()
        sym = cls.__name__
        for k, v in enumerate(e0._common_valences):
            for nb in sorted({0, v, max(v - 1, 0), v + 1}):
                if nb > 8:
                    continue
                out.append((('common', sym, v, nb), build(cls(), [(1, 'C')] * nb)))
        for i, (chg, rad, h, env) in enumerate(e0._valences_exceptions):
            if len(env) > 10:
                continue
            out.append((('rule', sym, i), build(cls(charge=chg, is_radical=rad), env)))
            pert = rng.choice(['reverse', 'extraC', 'extraH', 'any8', 'drop', 'order'])
            env2, extra = list(env), []
            if pert == 'reverse':
                env2.reverse()
            elif pert == 'extraC':
                extra = [(1, 'C')]
            elif pert == 'extraH':
                extra = [(1, 'H')]
            elif pert == 'any8':
                extra = [(8, 'Fe')]
                rng.shuffle(env2)
            elif pert == 'drop' and env2:
                env2.pop(rng.randrange(len(env2)))
            elif pert == 'order' and env2:
                j = rng.randrange(len(env2))
                env2[j] = (rng.choice([1, 2, 3]), env2[j][1])
            out.append((('rule-' + pert, sym, i), build(cls(charge=chg, is_radical=rad), env2, extra)))
    return out


def gen_random(ck, rng, n):
    from chython.periodictable import Element
    classes = Element.__subclasses__()
    common_nb = ['C', 'N', 'O', 'S', 'F', 'Cl', 'Br', 'I', 'H', 'P', 'Se']
    out = []
    for i in range(n):
        cls = rng.choice(classes) if rng.random() < 0.6 else Element.from_symbol(rng.choice(ORGANIC + ['H', 'Al', 'Fe', 'Cu', 'Mg', 'Sn', 'Bi']))
        chg = rng.choice([0, 0, 0, 1, -1, 2, -2, 3, -3, 4, -4])
        rad = rng.random() < 0.2
        k = rng.choice([0, 1, 1, 2, 2, 3, 3, 4, 4, 5, 6, 7])
        env = []
        for _ in range(k):
            o = rng.choice([1, 1, 1, 2, 2, 3, 8, 4] if rng.random() < 0.5 else [1, 2, 3])
            e = rng.choice(common_nb) if rng.random() < 0.85 else rng.choice(classes).__name__
            env.append((o, e))
        out.append((('random', i), build(cls(charge=chg, is_radical=rad), env)))
    return out


def gen_malformed(ck):
    """boundary / malformed inputs written by hand"""
    from chython import smiles, MoleculeContainer
    from chython.periodictable import Element, C, N, H, Fe
    out = []
    for smi in ('c1ccccc1', 'c1cc[nH]c1', 'c1ccoc1', 'c1ccsc1', '[cH-]1cccc1', 'c1ccc2ccccc2c1', 'O=c1cc[nH]cc1', 'Cc1ccccc1', 'c1ccncc1',
                'c1cc[n+](C)cc1', '[H][H]', '[2H]O[2H]', '[13CH4]', 'C[125I]', 'CN(=O)=O', 'C[N+](=O)[O-]', 'C(C)(C)(C)(C)C', '[CH3]', '[CH2]',
                '[NH4+]', '[OH-]', '[O-2]', '[Na+].[Cl-]', 'OP(O)(O)=O', 'OS(O)(=O)=O', 'FS(F)(F)(F)(F)F', 'O=Cl(=O)(=O)O', 'FI(F)F', 'C[Mg]Br', '[Fe]', '[Cu+2]',
                'C~C', 'N~[Fe]', 'C[SiH3]', '[BH4-]', 'B(O)(O)O', 'C#[O+]', '[C-]#[O+]', 'C=[N+]=[N-]', 'CS(C)=O', 'C[S+](C)C', 'CP(C)(C)=O',
                '[H]C([H])([H])[H]', '[H+]', '[H-]', '[He]', 'O=[Xe](=O)(=O)=O', 'F[Xe]F', 'C[N+5]'):
        try:
            m = smiles(smi)
        except Exception:
            continue
        if m is None:
            continue
        out.append((('smiles', smi), m, {}))
        if any(int(bd) == 4 for *_, bd in m.bonds()):
            k = m.copy()
            try:
                if k.kekule():
                    out.append((('smiles-kekule', smi), k, {}))
            except Exception:
                pass
    # aromatic-carbon special cases that no ring produces: 1 and 4 aromatic bonds, aromatic + double bond, aromatic hydrogen
    for name, centre, env in (('aroma1', C(), [(4, 'C')]), ('aroma2+2', C(), [(4, 'C'), (4, 'C'), (2, 'O')]), ('aroma2+1', C(), [(4, 'C'), (4, 'N'), (1, 'F')]),
                              ('aroma3', C(), [(4, 'C'), (4, 'C'), (4, 'C')]), ('aroma3+1', C(), [(4, 'C'), (4, 'C'), (4, 'C'), (1, 'C')]),
                              ('aroma4', C(), [(4, 'C')] * 4), ('aroma2+8', C(), [(4, 'C'), (8, 'Fe'), (4, 'C')]),
                              ('aromaC+', C(charge=1), [(4, 'C'), (4, 'C')]), ('aromaC.', C(is_radical=True), [(4, 'C'), (4, 'C')]),
                              ('aromaN', N(), [(1, 'C'), (4, 'C'), (4, 'C')]), ('aromaH', H(), [(4, 'C')]), ('H-many', H(), [(1, 'C'), (1, 'C')]),
                              ('only8', Fe(), [(8, 'N')] * 6), ('C+8', C(), [(8, 'Fe'), (1, 'C'), (8, 'Fe'), (2, 'O')])):
        out.append((('hand', name), build(centre, env), {}))
    # empty molecule, missing atoms (dangling references), atom numbers that do not exist
    out.append((('hand', 'empty'), MoleculeContainer(), {'extra_ids': (1,)}))
    m = smiles('CC(N)O')
    del m._atoms[3]
    out.append((('hand', 'dangling-neighbour'), m, {'extra_ids': (3, 99), 'labels': False, 'totals': True, 'recalc': False}))
    m = smiles('N1C=CC=C1')
    m._bonds[1][2]._order = 4
    del m._atoms[5]
    out.append((('hand', 'aromatic-then-dangling'), m, {'extra_ids': (5,), 'labels': False, 'recalc': False}))
    m = smiles('CCO')
    m._atoms[2]._implicit_hydrogens = None
    out.append((('hand', 'stored-None'), m, {'recalc': True}))
    return out


def corr_molecules(ck):
    from chython import smiles
    rng = random.Random(f'{ck.seed}:c04:mols')
    cases, meta = [], []

    def add(tag, m, **kw):
        try:
            cases.append(observe(m, **kw))
        except Exception as e:  # observation machinery failed: report as a broken tie, never silently
            cases.append(f'false (* observe failed: {type(e).__name__} *)')
        meta.append(tag)
        n_none = sum(1 for _, a in m.atoms() if a.implicit_hydrogens is None)
        ck.case(tag, nontrivial=True)
        ck.count('molecules:' + str(tag[0]))
        ck.count('atoms', len(m))
        if n_none:
            ck.count('molecules with a valence error / unset hydrogens')

    for tag, m, kw in gen_malformed(ck):
        add(tag, m, **kw)
    for tag, m in gen_rule_directed(ck, rng):
        add(tag, m)
    for tag, m in gen_random(ck, rng, 800 if ck.tier == 'quick' else 6000):
        add(tag, m)
    if ck.tier == 'thorough':
        # all elements x all rules x all single perturbations (and the rule family of the directed search)
        for tag, centre, env in gen_rule_family() + gen_rule_perturbed():
            try:
                m = build(centre, env)
            except Exception:
                ck.count('molecules:perturbed rule could not be built')
                continue
            add(('all-rules',) + tag, m, recalc=False)
    pool = corpus.sample(corpus.lipo(), 200 if ck.tier == 'quick' else 1500, ck.seed, 'c04corr')
    for smi in pool:
        try:
            m = smiles(smi)
        except Exception:
            continue
        add(('corpus-as-read', smi), m)
        k = m.copy()
        try:
            k.kekule()
        except Exception:
            continue
        add(('corpus-kekule', smi), k, stored=not any(int(bd) == 4 for *_, bd in k.bonds()))
    # isotope labels (every tabulated one, the most common isotope as often as the others): the totals, in particular the mass
    for smi in pool[:60 if ck.tier == 'quick' else 600] + ['[12CH4]', 'C[35Cl]', '[1H]O[2H]', '[16OH2]', 'C[14NH2]', '[13CH3][12CH3]', '[10B](O)(O)O', 'C[79Br]', '[32SH2]']:
        try:
            m = labelled_copy(smiles(smi), rng)
        except Exception:
            ck.count('molecules:labelled copy raised')
            continue
        add(('labelled', smi, tuple((n, a.isotope) for n, a in m.atoms() if a.isotope)), m, labels=False, recalc=False)
    ok, failing, log = coqcases.run_cases('c04m', IMPORTS, cases, extra=EXTRA, shard=150)
    good = ok and not failing
    ck.oblige(f'correspondence: per-atom calc_implicit / check_implicit / calc_labels and per-molecule fix_structure, brutto, charge, radical, mass, '
              f'check_valence on {len(cases)} real molecules == Coq model', good, 'correspondence', log or str([meta[i] for i in failing[:8]]))
    ck.extra['molecule_cases'] = len(cases)
    ck.sample({'model_call': cases[0][:600], 'meta': repr(meta[0])})
    ck.sample({'model_call': cases[len(cases) // 2][:600], 'meta': repr(meta[len(cases) // 2])})
    if not good:
        ck.unchecked('correspondence Valence model vs MoleculeContainer on whole molecules', log[-1500:],
                     [repr(meta[i]) + ' :: ' + cases[i][:1500] for i in failing[:20]])
    return good


# ---------------------------------------------------------------------------------------------------------------
# (c) union / substructure / split

IMPORTS_X = 'Graph PeriodicTable Valence ValenceArom'


def pyres_mol(fn):
    """result of a molecule-valued call as a Coq pyres term; MappingError and friends are ValueError subclasses"""
    try:
        return 'Ok ' + coqmol.mol_term(fn())
    except ValueError:
        return 'Err ValueError'
    except KeyError:
        return 'Err KeyError'
    except Exception as e:
        return 'Err ' + EXN.get(type(e).__name__, 'OtherError')


def compose_pool(ck, rng):
    """molecules for the union / substructure / split cases: corpus molecules as read (aromatic) and in Kekule form, and
    hand-made ones (salts, order-8 bonds joining components, radicals, valence errors, explicit hydrogens)"""
    from chython import smiles
    out = []
    for smi in ('CCO', '[Na+].[Cl-]', 'CC(=O)[O-].[NH4+]', 'c1ccccc1.Cc1ccncc1', 'C[N+](C)(C)C.[O-]S(=O)(=O)C(F)(F)F', 'N~[Cu]~N.O', 'C~[Fe].CC',
                '[CH3].[OH]', 'CN(=O)=O.C', '[H]O[H].[H][H]', 'OP(O)(O)=O', 'c1ccc2ccccc2c1', 'O=c1cc[nH]cc1', 'C', '[He]', 'C1CC1C.C1CC1',
                'OB(O)c1ccccc1.OCCO', 'Cl[Pt](Cl)(N)N', '[Li+].[Li+].[O-]C([O-])=O'):
        try:
            out.append(smiles(smi))
        except Exception:
            pass
    for smi in corpus.sample(corpus.lipo(), 30 if ck.tier == 'quick' else 400, ck.seed, 'c04compose'):
        try:
            m = smiles(smi)
        except Exception:
            continue
        out.append(m)
        k = m.copy()
        try:
            if k.kekule():
                out.append(k)
        except Exception:
            pass
    return out


def selections(m, rng):
    """atom selections for substructure: a connected ball, a random subset, one whole component, everything in reverse
    order, a repeated atom, an unknown atom, nothing"""
    atoms = list(m._atoms)
    sels = []
    if atoms:
        n = rng.choice(atoms)
        ball = [n] + list(m._bonds[n])
        sels.append(ball)
        sels.append([x for x in atoms if rng.random() < 0.5] or [atoms[0]])
        comp = rng.choice(m.connected_components)
        sels.append(sorted(comp, reverse=rng.random() < 0.5))
        sels.append(atoms[::-1])
        sels.append([n, n])
        sels.append([n, max(atoms) + 7])
    sels.append([])
    return sels


def atom_bag(mols):
    return sorted((a.atomic_number, a.isotope or 0, a.charge, a.is_radical, -1 if a.implicit_hydrogens is None else a.implicit_hydrogens)
                  for m in mols for _, a in m.atoms())


def compose_oracles(ck, tag, m1, m2, rng):
    """property-level oracles for union / split / substructure on the real code, none of which uses the model:
    the union holds the atoms of both parts (as a multiset of element, isotope, charge, radical, hydrogens) and its totals are
    the sums; the parts of split() hold the atoms of the molecule, each once, hydrogens unchanged, totals add up; a whole
    component taken with and without recalculation is the same when every stored count is a fresh one; a substructure that
    cuts bonds gets the counts of the same fragment built from scratch through add_atom / add_bond; nothing raises"""
    from chython import MoleculeContainer
    key = ':'.join(str(x) for x in tag)
    inp = {'a': str(m1), 'b': str(m2)}
    rp = (f"from chython import smiles\na, b = smiles({str(m1)!r}), smiles({str(m2)!r})\nu = a.union(b, remap=True)\n"
          "print(len(a), len(b), len(u), u.brutto if all(x.implicit_hydrogens is not None for _, x in u.atoms()) else None)\n"
          "print([[(n, x.atomic_symbol, x.implicit_hydrogens) for n, x in p.atoms()] for p in u.split()])")
    try:
        u = m1.union(m2, remap=True)
        if atom_bag([u]) != atom_bag([m1, m2]) or set(m1) - set(u):
            ck.counterexample(f'union-atoms:{key}', 'union(remap=True) does not hold exactly the atoms of the two molecules (elements, isotopes, charges, radicals, hydrogen counts)',
                              inp, [len(u), atom_bag([u])[:6]], [len(m1) + len(m2), atom_bag([m1, m2])[:6]], 'multiset of atoms', replay_py=rp)
            return
        clean = all(a.implicit_hydrogens is not None for _, a in u.atoms())
        parts = u.split()
        if atom_bag(parts) != atom_bag([u]) or sorted(n for p_ in parts for n in p_) != sorted(u):
            ck.counterexample(f'split-atoms:{key}', 'the parts of split() do not hold exactly the atoms of the molecule with their hydrogen counts',
                              inp, atom_bag(parts)[:8], atom_bag([u])[:8], 'multiset of atoms', replay_py=rp)
            return
        if clean:
            bsum = collections.Counter()
            for p_ in parts:
                for k, v in p_.brutto.items():
                    bsum[k] += v
            b12 = collections.Counter(m1.copy().brutto)
            b12.update(m2.copy().brutto)
            nz = lambda d: {k: v for k, v in d.items() if v}
            if nz(bsum) != nz(u.brutto) or nz(b12) != nz(u.brutto) or sum(int(p_) for p_ in parts) != int(u) or int(u) != int(m1.copy()) + int(m2.copy()) or \
                    abs(sum(float(p_) for p_ in parts) - float(u)) > 1e-6 or any(p_.is_radical for p_ in parts) != u.is_radical:
                ck.counterexample(f'split-totals:{key}', 'formula / charge / radical flag / mass are not additive over union and split()',
                                  inp, [nz(bsum), sum(int(p_) for p_ in parts)], [nz(u.brutto), int(u)], 'additivity', replay_py=rp)
                return
        c = u.copy()
        for n in c:
            c.calc_implicit(n)
        fresh = all(c._atoms[n].implicit_hydrogens == a.implicit_hydrogens for n, a in u.atoms())
        if fresh:
            for comp in u.connected_components:
                a_, b_ = u.substructure(comp, recalculate_hydrogens=True), u.substructure(comp, recalculate_hydrogens=False)
                ha, hb = [(n, x.implicit_hydrogens) for n, x in a_.atoms()], [(n, x.implicit_hydrogens) for n, x in b_.atoms()]
                if ha != hb or [n for n, _ in ha] != [n for n in u if n in comp]:
                    ck.counterexample(f'split-switch:{key}:{min(comp)}', 'a whole component taken with and without hydrogen recalculation differs (all stored counts were fresh)',
                                      dict(inp, component=sorted(comp)), ha, hb, 'calc_implicit depends on the atom and its bonds only', replay_py=rp)
                    return
        n0 = rng.choice(list(u))
        ball = {n0} | set(u._bonds[n0]) | {k for x in u._bonds[n0] for k in u._bonds[x]}
        sub = u.substructure(ball)
        scratch = MoleculeContainer()
        for n in sub:
            scratch.add_atom(u._atoms[n].copy(), n)
        for n, k, bd in sub.bonds():
            scratch.add_bond(n, k, int(bd))
        hs, hr = [(n, x.implicit_hydrogens) for n, x in sub.atoms()], [(n, x.implicit_hydrogens) for n, x in scratch.atoms()]
        if hs != hr or set(sub) != ball:
            ck.counterexample(f'sub-rebuild:{key}:{n0}', 'hydrogen counts of substructure() differ from the same fragment built from scratch',
                              dict(inp, atoms=sorted(ball)), hs, hr, 'rebuild through add_atom / add_bond', replay_py=rp)
    except Exception as e:
        ck.counterexample(f'compose-raises:{key}', f'union / split / substructure of two valid molecules raised {type(e).__name__}: {e}', inp, type(e).__name__, 'no exception',
                          'union / split / substructure are total on valid molecules', replay_py=rp)


def corr_compose(ck):
    rng = random.Random(f'{ck.seed}:c04:compose')
    pool = compose_pool(ck, rng)
    cases, meta = [], []
    n_sub = 0
    for i, m in enumerate(pool):
        g = coqmol.mol_term(m)
        # union with the next molecule of the pool: overlapping numbers (both start at 1) and disjoint ones
        o = pool[(i + 1) % len(pool)]
        far = o.copy()
        far.remap({n: n + 1000 for n in far})
        parts = []
        for other, tag in ((o, 'overlap'), (far, 'disjoint')):
            for remap in (False, True):
                exp = pyres_mol(lambda: m.union(other, remap=remap))
                parts.append(f'union_case g {"o" if other is o else "far"} {b(remap)} ({exp})')
                ck.case(('union', i, tag, remap))
                ck.count(f'compose:union {tag} remap={remap} -> {exp.split()[0]}')
        cases.append(f'(let g := {g} in let o := {coqmol.mol_term(o)} in let far := {coqmol.mol_term(far)} in ' + ' && '.join(parts) + ')')
        meta.append(('union', str(m), str(o)))
        parts = []
        sels = selections(m, rng)
        for sel in sels:
            for recalc in (True, False):
                exp = pyres_mol(lambda: m.substructure(sel, recalculate_hydrogens=recalc))
                parts.append(f'sub_case g {lst(sel, zraw)} {b(recalc)} ({exp})')
                ck.case(('sub', i, tuple(sel), recalc))
                ck.count(f'compose:substructure recalc={recalc} -> {exp.split()[0]}')
                n_sub += 1
        comps = [sorted(c) for c in m.connected_components]
        try:
            exp = 'Ok ' + lst(m.split(), coqmol.mol_term)
        except Exception as e:
            exp = 'Err ' + ('ValueError' if isinstance(e, ValueError) else EXN.get(type(e).__name__, 'OtherError'))
        parts.append(f'split_case g {lst(comps, lambda c: lst(c, zraw))} ({exp})')
        cases.append(f'(let g := {g} in ' + ' && '.join(parts) + ')')
        meta.append(('substructure+split', str(m), sels, comps))
        ck.case(('split', i))
        ck.count(f'compose:split into {min(len(comps), 4)}{"+" if len(comps) > 4 else ""} component(s)')
    ok, failing, log = coqcases.run_cases('c04c', IMPORTS_X, cases, extra=EXTRA, shard=12)
    good = ok and not failing
    n_all = 4 * len(pool) + n_sub + len(pool)
    ck.oblige(f'correspondence: union (remap on/off, overlapping / disjoint numbers), substructure (recalculate_hydrogens on/off; balls, subsets, '
              f'components, unknown / repeated / no atoms) and split on {len(pool)} real molecules == Coq model: atoms in order, hydrogen counts, bonds, exceptions '
              f'({n_all} calls)', good, 'correspondence', log or str([meta[i] for i in failing[:8]]))
    ck.extra['compose_cases'] = n_all
    ck.sample({'model_call': cases[1][:500], 'meta': repr(meta[1])[:300]})
    if not good:
        ck.unchecked('correspondence ValenceArom.union_py / substructure / split_with vs Graph.union / MoleculeContainer.substructure / split', log[-1500:],
                     [repr(meta[i]) + ' :: ' + cases[i][:1500] for i in failing[:20]])
        # directed search: the property-level oracles on and around the disagreeing molecules
        capped = Capped(ck, 5)
        todo = sorted({i // 2 for i in failing}) or list(range(len(pool)))
        for k in todo[:60]:
            for other in (pool[k], pool[(k + 1) % len(pool)], pool[(k + 7) % len(pool)]):
                compose_oracles(capped, ('directed', k, str(other)), pool[k], other, rng)
    return good


# ---------------------------------------------------------------------------------------------------------------
# (d) operations that WRITE hydrogen counts outside calc_implicit: Standardize.implicify_hydrogens / explicify_hydrogens /
#     canonicalize (also keep_kekule=True: saved Kekule bond orders put back) - the stored counts must be valence states

AZOLIUM = ['{a}[n+]1ccn({b})c1', '{a}[N+]1=CN({b})C=C1', '{a}[n+]1cccn1{b}', '{a}[N+]1=CC=CN1{b}', '{a}[n+]1cnn({b})c1', '{a}n1c[n+]({b})cn1',
           '{a}[n+]1cn({b})c2ccccc12', '{a}[N+]1=CN({b})c2ccccc12', '{a}[n+]1ccsc1{b}', '{a}[n+]1ccccc1{b}', '{a}[n+]1ccn({b})n1', '{a}[N+]1=NN({b})C=C1']
SUBST = ['C', 'CC', 'C(C)C', 'CCO', 'c1ccccc1', 'C(F)(F)F']


def gen_azolium(ck, rng):
    """ring cations whose charge canonicalisation may move the charge to another ring nitrogen (with or without moving a
    hydrogen): N,N'-disubstituted azolium cations, every ordered pair of different substituents, aromatic and Kekule spelling"""
    pairs = [(a, b_) for a in SUBST for b_ in SUBST if a != b_]
    if ck.tier == 'quick':
        pairs = [pq for pq in pairs if pq[0] in ('C', 'CC') or pq[1] in ('C', 'CC')]
        pairs = sorted(pairs, key=lambda pq: (pq not in (('CC', 'C'), ('C', 'CC')), rng.random()))[:7]
    return [t.format(a=a, b=b_) for t in AZOLIUM for a, b_ in pairs]


def gen_hydrides(ck, rng):
    """atoms that carry explicit hydrogen atoms, also more than can be made implicit: every element of the organic subset (+ As) and
    a seed-dependent choice of the others (all in the thorough tier), k = 1..6 explicit hydrogens alone and next to C / =O (/ C,C),
    charge +-1 for B C N O P S (all main ones thorough)"""
    from chython.periodictable import Element
    thorough = ck.tier == 'thorough'
    classes = [c for c in Element.__subclasses__() if c.__name__ != 'H']
    main = [c for c in classes if c.__name__ in ORGANIC + ['As'] + (['Ge', 'Sn', 'Al', 'Te'] if thorough else [])]
    rest = [c for c in classes if c not in main]
    chosen = main + (rest if thorough else rng.sample(rest, 8))
    others = [[], [(1, 'C')], [(2, 'O')]] + ([[(1, 'C'), (1, 'C')]] if thorough else [])
    out = []
    for cls in chosen:
        for chg in (0, 1, -1):
            if chg and (cls not in main or not (thorough or cls.__name__ in ('B', 'C', 'N', 'O', 'P', 'S'))):
                continue
            for other in others:
                if (chg or cls not in main) and other not in ([], [(1, 'C')]):
                    continue
                for k in range(1, 7):
                    env = [(1, 'H')] * k + other if k % 2 else other + [(1, 'H')] * k
                    out.append((('hydride', cls.__name__, chg, k, len(other)), cls(charge=chg), env))
    return out


def stored_states_ok(m):
    """[(atom, stored, accepted counts)] for the atoms whose stored hydrogen count is NOT a valence state of the atom: a stored
    count that check_implicit refuses, or a stored None although some count is accepted (atoms with aromatic bonds and
    hydrogen atoms are not judged: check_implicit cannot)"""
    bad = []
    for n, a in m.atoms():
        if a.atomic_number == 1 or any(int(bd) == 4 for bd in m._bonds[n].values()):
            continue
        acc = [h for h in range(9) if m.check_implicit(n, h)]
        if (a.implicit_hydrogens is None and acc) or (a.implicit_hydrogens is not None and a.implicit_hydrogens not in acc):
            bad.append((n, a.atomic_symbol, a.implicit_hydrogens, acc))
    return bad


TRACES = {}


def traced_implicify(m):
    """m.implicify_hydrogens() with the locals `explicit`, `to_remove`, `fixed` of the call read when it returns"""
    import sys
    got = {}

    def tracer(frame, event, arg):
        if frame.f_code.co_name != 'implicify_hydrogens':
            return None

        def local(fr, ev, a):
            if ev == 'return':
                for k in ('explicit', 'to_remove', 'fixed'):
                    if k in fr.f_locals:
                        got[k] = fr.f_locals[k]
            return local
        return local
    old = sys.gettrace()
    sys.settrace(tracer)
    try:
        m.implicify_hydrogens()
    finally:
        sys.settrace(old)
    return got


def writers_cases(ck, rng):
    """[(tag, replay code, result molecule or exception name, input SMILES)] of the hydrogen-writing operations"""
    from chython import smiles
    out = []
    for smi in gen_azolium(ck, rng) + ['CC[n+]1ccn(C)c1', 'CC[N+]1=CN(C)C=C1', 'C[n+]1ccn(CC)c1', 'c1cc[nH]c1', 'O=c1cc[nH]cc1', 'Cn1cc[n+](c1)C', 'C[n+]1ccccc1',
                                       '[O-][n+]1ccccc1', 'Cc1cc[nH+]cc1', 'c1ccc2[nH]ccc2c1', 'CN1C=C[NH+]=C1', 'OC1=NC=CC=C1', 'Oc1ncccc1', 'C[N+](C)(C)C']:
        for kk in (True, False):
            for ft in (True, False):
                try:
                    m = smiles(smi)
                except Exception:
                    continue
                call = f'canonicalize(keep_kekule={kk}, fix_tautomers={ft})'
                try:
                    m.canonicalize(keep_kekule=kk, fix_tautomers=ft)
                    res = m
                except Exception as e:
                    res = type(e).__name__
                out.append((('canonicalize', smi, kk, ft), f'from chython import smiles; m = smiles({smi!r}); m.{call}', res, smi, None))
    for tag, centre, env in gen_hydrides(ck, rng):
        try:
            m = build(centre, env)
        except Exception:
            continue
        smi = str(m)
        code = ('from chython import MoleculeContainer\nfrom chython.periodictable import Element\nm = MoleculeContainer()\n'
                f'm.add_atom(Element.from_symbol({centre.atomic_symbol!r})(charge={centre.charge}))\n'
                f'for o, e in {list(env)!r}:\n    m.add_bond(1, m.add_atom(e), o)\nm.implicify_hydrogens()')
        before = m.copy()
        try:
            tr = traced_implicify(m)
            res = m
            TRACES[id(before)] = tr
        except Exception as e:
            res = type(e).__name__
        out.append((tag, code, res, smi, before))
        if not isinstance(res, str) and all(a.implicit_hydrogens is not None for _, a in res.atoms()):
            x = res.copy()
            try:
                x.explicify_hydrogens()
                before = x.copy()
                x.implicify_hydrogens()
                out.append((('re-implicify',) + tag[1:], code + '\nm.explicify_hydrogens(); m.implicify_hydrogens()', x, smi, before))
            except Exception as e:
                out.append((('re-implicify',) + tag[1:], code + '\nm.explicify_hydrogens(); m.implicify_hydrogens()', type(e).__name__, smi, None))
    # explicit hydrogens written in SMILES (isotopes, H-H, bridging / over-bonded hydrogens, hydrogen on aromatic atoms, coordinate
    # bonds) and corpus molecules with ALL hydrogens made explicit
    texts = ['[H][H]', '[2H]O[2H]', '[H]O[2H]', '[1H]C', '[3H]C[H]', '[H]C([H])([H])[H]', 'C[H]C', '[H]=C', '[H]c1ccccc1', '[H]C1=CC=CC=C1', '[H][N+]([H])([H])[H]',
             '[H]O[H]', 'CB1(C)~[H]B(C)(C)~[H]1', 'CB1(C)[H]B(C)(C)[H]1', '[H]P([H])([H])([H])[H]', 'CP([H])([H])([H])[H]', '[H]S([H])([H])[H]', '[H]I([H])[H]',
             '[H]Cl([H])[H]', '[H][Fe][H]', '[H]~[Fe]', '[H]N([H])C(=O)C([H])([H])[H]', '[H][C-]([H])[H]', '[H][O+]([H])[H]', '[H][H].[H]C', '[H]']
    for smi in texts + corpus.sample(corpus.lipo(), 25 if ck.tier == 'quick' else 400, ck.seed, 'c04impl'):
        try:
            m = smiles(smi)
            if smi not in texts:
                m.kekule()
                m.explicify_hydrogens()
        except Exception:
            continue
        before = m.copy()
        code = f'from chython import smiles; m = smiles({smi!r}); ' + ('' if smi in texts else 'm.kekule(); m.explicify_hydrogens(); ') + 'm.implicify_hydrogens()'
        try:
            tr = traced_implicify(m)
            res = m
            TRACES[id(before)] = tr
        except Exception as e:
            res = type(e).__name__
        out.append((('implicify-smiles' if smi in texts else 'implicify-corpus', smi), code, res, smi, before))
    return out


def corr_writers(ck):
    """correspondence: every result molecule is printed and judged by the MODEL (Valence.stored_ok: every stored count passes the
    model's check_implicit, a stored None means the model's calc_implicit finds nothing) next to the usual per-atom comparison of
    calc_implicit / check_implicit / totals; search: the same judgement by the real check_implicit, and RDKit's count on the bare
    graph for organic-subset atoms"""
    from rdkit import RDLogger
    RDLogger.DisableLog('rdApp.*')
    rng = random.Random(f'{ck.seed}:c04:writers')
    results = writers_cases(ck, rng)
    capped = Capped(ck, 6)
    cases, meta = [], []
    icases, imeta = [], []
    for tag, code, res, smi, before in results:
        ck.case(('writer',) + tag)
        ck.count(f'writers:{tag[0]}' + (' raised ' + res if isinstance(res, str) else ''))
        if before is not None:
            # the whole result of implicify_hydrogens (atoms in order, counts, bonds, or the exception) against the Gallina mirror
            exp = ('Err ' + EXN.get(res, 'OtherError')) if isinstance(res, str) else 'Ok ' + coqmol.mol_term(res)
            tr = TRACES.get(id(before))
            if tr and all(k in tr for k in ('explicit', 'to_remove', 'fixed')):
                # intermediate states: `explicit` after the first loop (insertion order), `to_remove` (a set) and `fixed` after the second
                ex_t = lst(list(tr['explicit'].items()), lambda kv: tup(zraw(kv[0]), lst(kv[1], zraw)))
                icases.append(f'(let g := {coqmol.mol_term(before)} in implicify_case g ({exp}) && implicify_trace_case g {ex_t} '
                              f'{lst(sorted(tr["to_remove"]), zraw)} {lst(list(tr["fixed"].items()), lambda kv: tup(zraw(kv[0]), zraw(kv[1])))})')
                ck.count('writers:implicify intermediate states compared')
            else:
                icases.append(f'implicify_case {coqmol.mol_term(before)} ({exp})')
            imeta.append((tag, smi))
        if isinstance(res, str):
            continue
        bad = stored_states_ok(res)
        rp = code + '\nprint(str(m), [(n, a.atomic_symbol, a.charge, a.implicit_hydrogens, [h for h in range(9) if m.check_implicit(n, h)]) for n, a in m.atoms()], m.check_valence())'
        if bad:
            capped.counterexample(f'stored-state:{tag[0]}:{smi}:{":".join(str(x) for x in tag[2:])}',
                                  f'after {code.splitlines()[-1].split("; ")[-1]} an atom carries a hydrogen count that is not a valence state of its element, charge and bonds '
                                  '(check_implicit refuses it, or the atom is left without a count although one is accepted)',
                                  {'input': smi, 'operation': tag[0], 'options': list(tag[2:])}, [{'atom': n, 'element': e, 'stored': h, 'accepted': acc} for n, e, h, acc in bad],
                                  'stored count accepted by check_implicit', 'check_implicit(n, h) for h = 0..8 on the result molecule', replay_py=rp)
        elif not any(int(bd) in (4, 8) for *_, bd in res.bonds()) and len(res) > 1:
            rd = rd_total_hs(res)
            if rd is not None:
                for n, a in res.atoms():
                    if a.atomic_symbol in OCTET_ELECTRONS and a.implicit_hydrogens is not None and (a.atomic_symbol, a.charge, a.is_radical) not in HYPERVALENT:
                        ck.count('writers:rdkit atoms judged')
                        if a.implicit_hydrogens + a.explicit_hydrogens != rd[n]:
                            capped.counterexample(f'stored-rdkit:{tag[0]}:{smi}:{":".join(str(x) for x in tag[2:])}:{n}',
                                                  f'after {code.splitlines()[-1].split("; ")[-1]} the total hydrogens of atom {n} ({a.atomic_symbol}) differ from RDKit',
                                                  {'input': smi, 'operation': tag[0]}, a.implicit_hydrogens + a.explicit_hydrogens, rd[n],
                                                  'RDKit valence model on the bare graph', replay_py=rp)
                            break
        loc = not any(int(bd) == 4 for *_, bd in res.bonds())
        cases.append(observe(res, labels=False, recalc=False, stored=loc))
        meta.append((tag, smi, str(res)))
    ok, failing, log = coqcases.run_cases('c04w', IMPORTS, cases, extra=EXTRA, shard=150)
    good = ok and not failing
    ck.oblige(f'correspondence: result molecules of canonicalize (keep_kekule / fix_tautomers on and off), implicify_hydrogens and explicify + implicify '
              f'({len(cases)} results): per-atom calc_implicit / check_implicit, totals, and every stored count is a valence state for the Coq model (stored_ok)',
              good, 'correspondence', log or str([meta[i] for i in failing[:8]]))
    ck.extra['writer_cases'] = len(cases)
    if not good:
        ck.unchecked('correspondence Valence.stored_ok / calc_implicit / check_implicit on the results of canonicalize / implicify_hydrogens', log[-1500:],
                     [repr(meta[i]) + ' :: ' + cases[i][:1500] for i in failing[:20]])
    ok, failing, log = coqcases.run_cases('c04i', IMPORTS_X, icases, extra=EXTRA, shard=200)
    good_i = ok and not failing
    ck.oblige(f'correspondence: Standardize.implicify_hydrogens == Coq model ValenceArom.implicify on {len(icases)} molecules with explicit hydrogens (hydrides of '
              'every chosen element with 1..6 hydrogens, explicified results, SMILES with isotopes / H-H / over-bonded / bridging hydrogens, fully explicified '
              'corpus molecules): whole result molecule or exception, and the intermediate states explicit / to_remove / fixed read from the running call', good_i, 'correspondence', log or str([imeta[i] for i in failing[:8]]))
    ck.extra['implicify_cases'] = len(icases)
    if not good_i:
        ck.unchecked('correspondence ValenceArom.implicify vs Standardize.implicify_hydrogens', log[-1500:],
                     [repr(imeta[i]) + ' :: ' + icases[i][:1500] for i in failing[:20]])
    return good and good_i


# ---------------------------------------------------------------------------------------------------------------
# (e) deferred recalculation: several structural edits inside ONE `with mol:` block (or with _skip_calculation=True followed by
#     fix_structure()): the hydrogen counts are recalculated once, for the atoms recorded as changed

def gen_histories(ck, rng):
    """[(start SMILES, [edit, ...], mode)]; edits: ('bond', n, m, order) ('unbond', n, m) ('atom', element, neighbour, order)
    ('del', n) ('charge', n, c).  Exhaustive: every ordered pair of add_bond edits (both argument orders) over the four carbons of
    C.C.C.C; generated: 2..4 random edits on small and corpus molecules.  mode: 'with' | 'skip'"""
    out = []
    oriented = [(a, b_) for a in (1, 2, 3, 4) for b_ in (1, 2, 3, 4) if a != b_]
    for e1 in oriented:
        for e2 in oriented:
            if {e1[0], e1[1]} != {e2[0], e2[1]}:
                out.append(('C.C.C.C', [('bond',) + e1 + (1,), ('bond',) + e2 + (1,)], 'with' if (e1[0] + e2[1]) % 3 else 'skip'))
    out += gen_remap_histories(ck, rng)
    starts = ['CCCCCC', 'CC.O.N', 'C=C.CO', 'OC(=O)CC.N', 'C1CC1.CC', 'CS.CCl', '[NH4+].CC([O-])=O', 'c1ccccc1.C', 'CC(C)C.O.O']
    starts += [x for x in corpus.sample(corpus.lipo(), 12 if ck.tier == 'quick' else 150, ck.seed, 'c04hist')]
    for smi in starts:
        for rep in range(6 if ck.tier == 'quick' else 20):
            out.append((smi, None, 'with' if rep % 3 else 'skip', rng.random()))
    return out


REMAP_STARTS = ['C[NH3+]', 'CC[O-]', 'C[CH2]', 'C[N+](C)(C)[O-]']


def gen_remap_histories(ck, rng):
    """renumbering inside ONE block - exhaustive small space: small charged / radical molecules x (nothing | a structural edit first) x
    (every transposition of two existing atom numbers | a move to a fresh number) x (every atom x charge -1 / 0 / +1, radical flag on / off)
    afterwards, the edit addressed by the NEW numbers; plus the same without the attribute edit under _skip_calculation.  The quick tier
    takes the three smallest molecules, every charge edit after a structural edit and a seed-chosen part of the rest"""
    from chython import smiles
    out = []
    quick = ck.tier == 'quick'
    for smi in REMAP_STARTS[:3] if quick else REMAP_STARTS:
        n0 = len(smiles(smi))
        for prefix in (False, True):
            atoms = list(range(1, n0 + 1)) + ([n0 + 1] if prefix else [])
            pre = [('atom', 'C', 1, 1, n0 + 1)] if prefix else []
            remaps = [((a, b_), (b_, a)) for i, a in enumerate(atoms) for b_ in atoms[i + 1:]] + [((1, n0 + 7),)]
            for mp in remaps:
                d = dict(mp)
                now = [d.get(a, a) for a in atoms]
                out.append((smi, pre + [('remap', mp)], 'skip'))
                for k in now:
                    for e in [('charge', k, c) for c in (-1, 0, 1)] + [('radical', k, f) for f in (False, True)]:
                        if not quick or (rng.random() < 0.25 if not prefix else e[0] == 'charge' or rng.random() < 0.3):
                            out.append((smi, pre + [('remap', mp), e], 'with'))
    return out


def run_history(smi, edits, mode, r):
    """apply the edits to smiles(smi) (Kekule form) inside one block; returns (molecule, edits applied, touched atoms) - the
    touched set is computed from the edits themselves, never from the molecule's own bookkeeping"""
    from chython import smiles
    m = smiles(smi)
    m.kekule()
    rng = random.Random(f'{smi}:{r}')
    if edits is None:
        edits = []
        atoms = list(m._atoms)
        bonded = {frozenset((a, b_)) for a, b_, _ in m.bonds()}
        nxt = max(atoms) + 1
        for _ in range(rng.choice([2, 2, 3, 4])):
            kind = rng.choice(['bond', 'bond', 'bond', 'unbond', 'atom', 'del', 'charge'])
            if kind == 'bond':
                free = [(a, b_) for a in atoms for b_ in atoms if a != b_ and frozenset((a, b_)) not in bonded]
                if free:
                    a, b_ = rng.choice(free)
                    bonded.add(frozenset((a, b_)))
                    edits.append(('bond', a, b_, rng.choice([1, 1, 1, 2])))
            elif kind == 'unbond' and bonded:
                pr = rng.choice(sorted(tuple(sorted(x)) for x in bonded))
                bonded.discard(frozenset(pr))
                edits.append(('unbond',) + (pr if rng.random() < 0.5 else pr[::-1]))
            elif kind == 'atom':
                a = rng.choice(atoms)
                edits.append(('atom', rng.choice(['C', 'N', 'O', 'Cl']), a, 1, nxt))
                bonded.add(frozenset((nxt, a)))
                atoms.append(nxt)
                nxt += 1
            elif kind == 'del' and len(atoms) > 2:
                a = rng.choice(atoms)
                atoms.remove(a)
                bonded = {x for x in bonded if a not in x}
                edits.append(('del', a))
            elif kind == 'charge':
                edits.append(('charge', rng.choice(atoms), rng.choice([1, -1])))
    touched = set()

    def apply(skip):
        kw = {'_skip_calculation': True} if skip else {}
        for e in edits:
            if e[0] == 'bond':
                m.add_bond(e[1], e[2], e[3], **kw)
                touched.update((e[1], e[2]))
            elif e[0] == 'unbond':
                m.delete_bond(e[1], e[2], **kw)
                touched.update((e[1], e[2]))
            elif e[0] == 'atom':
                n = m.add_atom(e[1], e[4], **kw)
                m.add_bond(e[2], n, e[3], **kw)      # the pre-existing atom FIRST, the new one second - and the other way below
                touched.update((n, e[2]))
            elif e[0] == 'del':
                touched.update(k for k, bd in m._bonds[e[1]].items() if int(bd) != 8)
                m.delete_atom(e[1], **kw)
                touched.discard(e[1])
            elif e[0] == 'charge':
                m.atom(e[1]).charge = e[2]
                touched.add(e[1])
            elif e[0] == 'radical':
                m.atom(e[1]).is_radical = e[2]
                touched.add(e[1])
            elif e[0] == 'remap':            # renumbering changes no valence state: the touched atoms keep being touched under their new numbers
                mp = dict(e[1])
                m.remap(mp)
                new = {mp.get(k, k) for k in touched}
                touched.clear()
                touched.update(new)
    if mode == 'with':
        with m:
            apply(False)
    else:
        if any(e[0] in ('charge', 'radical') for e in edits):     # attribute setters are tracked by transactions only
            edits = [e for e in edits if e[0] not in ('charge', 'radical')]
        apply(True)
        m.fix_structure()
        m.fix_stereo()
    return m, edits, sorted(n for n in touched if n in m._atoms)


def warm_totals(m):
    """read (and thereby cache) formula, charge, radical flag and mass, as a user who looked at them before editing would"""
    try:
        return (dict(m.brutto), int(m), m.is_radical, m.molecular_mass)
    except Exception:
        return None


def live_totals_bad(m):
    """None, or (observed, expected): the totals the LIVE object answers vs the sums re-derived from its atoms (exact rationals for the mass)"""
    if any(a.implicit_hydrogens is None for _, a in m.atoms()):
        return None
    from chython.periodictable import H
    hm = exact_atomic_mass(H())
    cnt = collections.Counter(a.atomic_symbol for _, a in m.atoms())
    cnt['H'] += sum(a.implicit_hydrogens for _, a in m.atoms())
    exp = ({k: v for k, v in cnt.items() if v}, sum(a.charge for _, a in m.atoms()), any(a.is_radical for _, a in m.atoms()))
    ex = float(sum(exact_atomic_mass(a) + a.implicit_hydrogens * hm for _, a in m.atoms()))
    try:
        obs = ({k: v for k, v in m.brutto.items() if v}, int(m), m.is_radical)
        mass = m.molecular_mass
    except Exception as e:
        return (type(e).__name__, [exp, ex])
    if obs != exp or abs(mass - ex) > 1e-9 * max(1.0, ex):
        return ([obs, mass], [exp, ex])
    return None


def MoleculeContainerOf(atom):
    from chython import MoleculeContainer
    m = MoleculeContainer()
    m.add_atom(atom)
    return m


def rebuild(m):
    from chython import MoleculeContainer
    x = MoleculeContainer()
    for n, a in m.atoms():
        x.add_atom(a.copy(), n)
    for n, k, bd in m.bonds():
        x.add_bond(n, k, int(bd))
    return x


def corr_histories(ck):
    rng = random.Random(f'{ck.seed}:c04:hist')
    capped = Capped(ck, 6)
    cases, meta = [], []
    for item in gen_histories(ck, rng):
        smi, edits, mode = item[:3]
        try:
            m, edits, touched = run_history(smi, edits, mode, item[3] if len(item) > 3 else 0)
        except Exception as e:
            ck.count(f'histories:raised {type(e).__name__}')
            continue
        ck.case(('history', smi, tuple(edits), mode))
        ck.count(f'histories:{mode} block with {len(edits)} edits')
        code = ('from chython import smiles\nm = smiles(%r); m.kekule()\n' % smi) + \
               ('with m:\n' + ''.join('    ' + edit_code(e, '') + '\n' for e in edits) if mode == 'with' else
                ''.join(edit_code(e, ', _skip_calculation=True') + '\n' for e in edits) + 'm.fix_structure()\n') + \
               'print(str(m), [(n, a.atomic_symbol, a.implicit_hydrogens, [h for h in range(9) if m.check_implicit(n, h)]) for n, a in m.atoms()], m.check_valence(), m.brutto)'
        inp = {'start': smi, 'edits': [list(e) for e in edits], 'block': 'with mol:' if mode == 'with' else '_skip_calculation=True ... fix_structure()'}
        # search: every stored count is a valence state; the molecule rebuilt from scratch carries the same counts and formula
        bad = stored_states_ok(m)
        if bad:
            capped.counterexample(f'history-state:{smi}:{edits}:{mode}', 'after several edits in one block an atom carries a hydrogen count that is not a valence state of its '
                                  'element, charge and bonds (a stale count: the atom was not recalculated)', inp,
                                  [{'atom': n, 'element': e, 'stored': h, 'accepted': acc} for n, e, h, acc in bad], 'stored count accepted by check_implicit',
                                  'check_implicit(n, h) for h = 0..8 on the result', replay_py=code)
        else:
            try:
                x = rebuild(m)
                hs, hx = {n: a.implicit_hydrogens for n, a in m.atoms()}, {n: a.implicit_hydrogens for n, a in x.atoms()}
                if hs != hx:
                    capped.counterexample(f'history-rebuild:{smi}:{edits}:{mode}', 'after several edits in one block the hydrogen counts differ from the same molecule built from scratch',
                                          inp, {n: (hs[n], hx[n]) for n in hs if hs[n] != hx[n]}, 'equal counts', 'rebuild through add_atom / add_bond', replay_py=code)
            except Exception:
                ck.count('histories:rebuild raised')
        loc = not any(int(bd) == 4 for *_, bd in m.bonds())
        cases.append(f'(let g := {coqmol.mol_term(m)} in history_case g {lst(touched, zraw)} {b(loc)})')
        meta.append((smi, edits, mode, touched, str(m)))
    ok, failing, log = coqcases.run_cases('c04h', IMPORTS_X, cases, extra=EXTRA, shard=150)
    good = ok and not failing
    ck.oblige(f'correspondence: results of {len(cases)} edit histories inside one block (every ordered pair of add_bond edits over four carbons, 2..4 random '
              'add_bond / delete_bond / add_atom / delete_atom / charge edits on small and corpus molecules; `with mol:` and _skip_calculation + fix_structure): the atoms '
              'the edits touched carry what the model\'s calc_implicit gives (fresh_on), every stored count is a valence state for the model (stored_ok)',
              good, 'correspondence', log or str([meta[i] for i in failing[:6]]))
    ck.extra['history_cases'] = len(cases)
    if not good:
        ck.unchecked('correspondence ValenceArom.fresh_on / Valence.stored_ok on the results of edit histories inside one block', log[-1500:],
                     [repr(meta[i]) for i in failing[:20]])
    return good


# ---------------------------------------------------------------------------------------------------------------
# (f) the rule engine of standardize() writes charges / radicals / bond orders (also order 8: the metal-organic rules turn covalent
#     metal-ligand bonds into coordinate ones, which no longer count for the valence) and recalculates the hydrogens of the atoms it
#     touched: afterwards EVERY atom whose charge, radical flag or non-8 bonds changed must carry the count of its new state

STD_METALS = ['Ni', 'Pd', 'Fe', 'Ti', 'Cu', 'Pt', 'Rh', 'Zn', 'Co', 'Ru', 'Mn', 'Cr', 'Ir', 'Ag', 'Au', 'Mo', 'W', 'Li', 'Mg', 'Al', 'Sn', 'Hg', 'Zr', 'V']
STD_COVALENT = ['O#C[Ni](C#O)(C#O)C#O', 'O#C[Fe](C#O)(C#O)(C#O)C#O', 'Cl[Pd](Cl)(P(C)(C)C)P(C)(C)C', 'C[Pd](Cl)=C1N(C)C=CN1C', 'Cl[Pd](Cl)=C1N(C)CCN1C',
                'N#C[Cu]', 'N#C[Fe](C#N)(C#N)(C#N)(C#N)C#N', 'Cl[Pt](Cl)(N(C)C)N(C)C', 'C[Zn]N(C)(C)C', 'Cl[Rh](P(C)(C)C)(P(C)(C)C)P(C)(C)C', 'O=C=N[Ag]', 'N#CO[Ag]', 'N#CS[Hg]SC#N',
                'C[Mg]Br', 'C[Li]', 'CO[Na]', 'Cl[Ti](Cl)(Cl)C#O', 'O=C([Fe])[Fe]', 'C1=CC2C(=C1)[Fe]2', '[Fe]C(=O)C', 'C[O+](C)[Cu]', 'C[N+](C)(C)[Cu]', 'C[P+](C)(C)[Au]',
                '[Pd]=C1N(C)C=CN1C', 'CN1C=CN(C)C1=[Pd]=C1N(C)C=CN1C', 'CN(=O)=O', 'CS(=O)(=O)[S-]', 'C[N+]#N', 'CN=N#N', 'OC=C', 'CC(=N)O']


def std_instance(rule, rng, metal, copies=1):
    """the pattern of a standardize rule built as a real molecule (fresh hydrogen counts): named elements as they are, element lists /
    bond-order lists by a seed-dependent choice, A = carbon, M = the given metal, the charge / radical flag the pattern names, carbon
    substituents up to the smallest allowed neighbour count; `copies` > 1: that many copies sharing the rule's first Any-atom (the
    overlap the engine accepts: several ligands on one metal, geminal groups)"""
    from chython import MoleculeContainer
    from chython.periodictable import Element
    from chython.periodictable.base.query import AnyMetal, AnyElement, ListElement
    q, any_atoms = rule[0], rule[3]
    shared = any_atoms[0] if (any_atoms and copies > 1) else None
    if copies > 1 and shared is None:
        return None
    m = MoleculeContainer()

    def num(c, n):
        return 900 if n == shared else n + 100 * c
    choice = {}
    for c in range(copies):
        for n, a in q._atoms.items():
            if n == shared and c:
                continue
            if type(a) is AnyMetal:
                el = Element.from_symbol(metal)()
            elif type(a) is AnyElement:
                el = Element.from_symbol('C')(charge=a.charge, is_radical=a.is_radical)
            elif type(a) is ListElement:
                el = Element.from_atomic_number(choice.setdefault(n, rng.choice(a.atomic_numbers)))(charge=a.charge, is_radical=a.is_radical)
            else:
                el = Element.from_atomic_number(a.atomic_number)(charge=a.charge, is_radical=a.is_radical)
            m.add_atom(el, num(c, n), _skip_calculation=True)
        for n, k, bd in q.bonds():
            m.add_bond(num(c, n), num(c, k), choice.setdefault(('b', n, k), rng.choice(bd.order)), _skip_calculation=True)
    nxt = 1000
    for c in range(copies):
        for n, a in q._atoms.items():
            if n == shared or type(a) is AnyMetal:
                continue
            deg = len(q._bonds[n])
            want = [d for d in (a.neighbors or ()) if d >= deg]
            for _ in range((min(want) - deg) if want else 0):
                m.add_atom('C', nxt, _skip_calculation=True)
                m.add_bond(num(c, n), nxt, 1, _skip_calculation=True)
                nxt += 1
    m._changed = None
    m.fix_structure()
    return m


def valence_signature(m):
    """what the hydrogen count of an atom depends on: charge, radical flag, multiset of (order, neighbour element) over non-8 bonds"""
    return {n: (a.charge, a.is_radical, tuple(sorted((int(bd), m._atoms[k].atomic_number) for k, bd in m._bonds[n].items() if int(bd) != 8)))
            for n, a in m.atoms()}


def gen_std_inputs(ck, rng):
    """[(tag, replay code building `m`, molecule)]: every rule of the three tables of standardize (double / single / metal-organic) on
    its own instantiation, alone and as 2..4 copies sharing its Any-atom, metals chosen by the seed; hand-written covalently drawn
    metal-organic complexes (carbonyls, cyanides, phosphines, amines, NHC carbenes) and functional groups"""
    from chython import smiles
    from chython.algorithms.standardize import molecule as engine
    out = []
    thorough = ck.tier == 'thorough'
    for cname in ('double_rules', 'single_rules', 'metal_rules'):
        for i, rule in enumerate(getattr(engine, cname)):
            has_metal = cname == 'metal_rules'
            for copies in ((1, 2, 3, 4) if thorough else (1, rng.choice([2, 3, 4]))):
                for metal in rng.sample(STD_METALS, (4 if thorough else 1) if has_metal else 1):
                    seed = rng.randrange(10 ** 6)
                    try:
                        m = std_instance(rule, random.Random(seed), metal, copies)
                    except Exception:
                        ck.count('std-rules:instance could not be built')
                        continue
                    if m is None:
                        continue
                    code = ('import sys, random; sys.path[:0] = ["/verif/harness", "/verif/tools"]\nfrom checks.C04 import std_instance\nfrom chython.algorithms.standardize import molecule as engine\n'
                            f'm = std_instance(engine.{cname}[{i}], random.Random({seed}), {metal!r}, {copies})')
                    out.append(((cname, i, copies, metal if has_metal else '-'), code, m))
    for smi in STD_COVALENT:
        try:
            m = smiles(smi)
            m.kekule()
        except Exception:
            continue
        out.append((('smiles', smi), f'from chython import smiles; m = smiles({smi!r}); m.kekule()', m))
    return out


def corr_std_rules(ck):
    rng = random.Random(f'{ck.seed}:c04:stdrules')
    capped = Capped(ck, 6)
    cases, meta = [], []
    for tag, code, m0 in gen_std_inputs(ck, rng):
        fresh_in = {n: a.implicit_hydrogens for n, a in m0.atoms()} == {n: a.implicit_hydrogens for n, a in rebuild(m0).atoms()}
        for call in ('standardize()', 'standardize(fix_tautomers=False)') + (('canonicalize()',) if tag[0] == 'smiles' else ()):
            m = m0.copy()
            s0 = valence_signature(m)
            warm_totals(m)
            try:
                eval('m.' + call, {'m': m})
            except Exception as e:
                ck.count(f'std-rules:{call} raised {type(e).__name__}')
                continue
            s1 = valence_signature(m)
            touched = sorted(n for n in s1 if s0.get(n) != s1[n])
            ck.case(('std-rule', tag, call), nontrivial=bool(touched))
            ck.count(f'std-rules:{tag[0]} ({call}) atoms with a changed valence state={min(len(touched), 4)}')
            if any(int(bd) == 8 for *_, bd in m.bonds()) and not any(int(bd) == 8 for *_, bd in m0.bonds()):
                ck.count('std-rules:results with new coordinate bonds')
            if not touched:
                continue
            rp = code + f'\nm.{call}\nprint(str(m), [(n, a.atomic_symbol, a.charge, a.implicit_hydrogens, [h for h in range(9) if m.check_implicit(n, h)]) for n, a in m.atoms()], m.check_valence())'
            inp = {'molecule': str(m0), 'built_from': list(tag), 'call': call}
            loc = not any(int(bd) == 4 for *_, bd in m.bonds())
            bad = stored_states_ok(m) if loc else []
            tb = live_totals_bad(m)
            if tb:
                capped.counterexample(f'std-totals:{tag}:{call}', f'the totals were read, then {call} was called: formula / charge / radical flag / mass answered afterwards are not the sums over the atoms',
                                      inp, tb[0], tb[1], 'sums re-derived from the atoms of the result', replay_py=rp)
            if bad:
                capped.counterexample(f'std-state:{tag}:{call}', f'after {call} an atom carries a hydrogen count that is not a valence state of its element, charge and bonds '
                                      '(a stale count: the rule engine changed the atom\'s bonds or charge and did not recalculate it), so check_valence() / the formula are wrong',
                                      inp, [{'atom': n, 'element': e, 'stored': h, 'accepted': acc} for n, e, h, acc in bad],
                                      'stored count accepted by check_implicit; None only if no count is accepted', 'check_implicit(n, h) for h = 0..8 on the result', replay_py=rp)
            elif fresh_in and loc:       # (calc_implicit leaves aromatic heteroatoms to kekule(): no rebuild of aromatic results)
                try:
                    x = rebuild(m)
                    hs, hx = {n: a.implicit_hydrogens for n, a in m.atoms()}, {n: a.implicit_hydrogens for n, a in x.atoms()}
                    if hs != hx:
                        capped.counterexample(f'std-rebuild:{tag}:{call}', f'after {call} the hydrogen counts differ from the same structure built from scratch',
                                              inp, {n: (hs[n], hx[n]) for n in hs if hs[n] != hx[n]}, 'equal counts', 'rebuild through add_atom / add_bond', replay_py=rp)
                except Exception:
                    ck.count('std-rules:rebuild raised')
            if len(cases) < (180 if ck.tier == 'quick' else 4000):
                cases.append(f'(let g := {coqmol.mol_term(m)} in history_case g {lst(touched, zraw)} {b(loc)})' + (' && ' + observe(m, labels=False, recalc=False, live=True) if len(cases) % 4 == 0 else ''))
                meta.append((tag, call, touched, str(m)))
    n_std = len(cases)
    # the other in-place operations with the totals read BEFORE the call (isotope-labelled, charged, salt and complex inputs): the totals the LIVE
    # result answers, its per-atom calc_implicit / check_implicit and stored_ok against the model
    orng = random.Random(f'{ck.seed}:c04:opscorr')
    from chython import smiles
    for smi in OPS_LABELLED + OPS_EXTRA:
        for relabel in (True, False):
            try:
                m0 = smiles(smi)
                m0.kekule()
                if relabel:
                    m0 = labelled_copy(m0, orng)
            except Exception:
                continue
            for op in OPS:
                m = m0.copy()
                warm_totals(m)
                try:
                    if not eval('m.' + op, {'m': m}):
                        continue
                except Exception:
                    continue
                ck.case(('op-corr', smi, relabel, op))
                ck.count(f'ops-corr:{op}')
                try:
                    cases.append(observe(m, labels=False, recalc=False, live=True))
                except Exception as e:
                    cases.append(f'false (* observe failed: {type(e).__name__} *)')
                meta.append((('op', smi, relabel), op, [], str(m)))
    ok, failing, log = coqcases.run_cases('c04s', IMPORTS_X, cases, extra=EXTRA, shard=150)
    good = ok and not failing
    ck.oblige(f'correspondence: results of standardize() / standardize(fix_tautomers=False) on the instantiation of every rule of its three tables (alone and 2..4 copies '
              f'sharing the Any-atom, seed-chosen metals) and on covalently drawn metal-organic complexes ({n_std} results in which a valence state changed; + {len(cases) - n_std} results of other operations): the atoms whose '
              'charge / radical flag / non-8 bonds changed (found by comparing input and result, never from the engine\'s own set) carry what the model\'s calc_implicit gives '
              '(fresh_on), every stored count is a valence state for the model (stored_ok); every fourth result, and the results of the other in-place operations (neutralize, standardize_charges, '
              'remove_coordinate_bonds, clean_isotopes, fix_resonance, salts) on labelled / charged / salt / complex inputs, with the totals READ BEFORE the call: formula, charge, radical flag, '
              'mass as the live object answers them afterwards == model', good, 'correspondence', log or str([meta[i] for i in failing[:6]]))
    ck.extra['std_rule_cases'] = n_std
    ck.extra['ops_corr_cases'] = len(cases) - n_std
    if not good:
        ck.unchecked('correspondence ValenceArom.fresh_on / Valence.stored_ok on the results of the standardize rule engine', log[-1500:],
                     [repr(meta[i]) for i in failing[:20]])
    return good


def edit_code(e, kw):
    if e[0] == 'bond':
        return f'm.add_bond({e[1]}, {e[2]}, {e[3]}{kw})'
    if e[0] == 'unbond':
        return f'm.delete_bond({e[1]}, {e[2]}{kw})'
    if e[0] == 'atom':
        return f'm.add_bond({e[2]}, m.add_atom({e[1]!r}, {e[4]}{kw}), {e[3]}{kw})'
    if e[0] == 'del':
        return f'm.delete_atom({e[1]}{kw})'
    if e[0] == 'remap':
        return f'm.remap({dict(e[1])!r})'
    if e[0] == 'radical':
        return f'm.atom({e[1]}).is_radical = {e[2]}'
    return f'm.atom({e[1]}).charge = {e[2]}'


# ---------------------------------------------------------------------------------------------------------------
# directed search for the table theorems: the molecule of every tabulated rule, judged without the tables

NOBLE = (0, 2, 10, 18, 36, 54, 86, 118)


def valence_electrons(z):
    """valence electrons of a main-group element from its atomic number alone (position after the preceding noble gas);
    None for d- and f-block elements.  Written from the shape of the periodic table, not from chython's group classes."""
    if z == 1 or z == 2:
        return z
    p = max(x for x in NOBLE if x < z)
    k, length = z - p, {2: 8, 10: 8, 18: 18, 36: 18, 54: 32, 86: 32}[p]
    if k <= 2:
        return k
    k -= length - 8              # skip the d (and f) block
    return k if k >= 3 else None


def lone_electrons(m, n, h):
    """electrons left on atom n after its charge, all its bonds (order-8 bonds ignored, h implicit hydrogens) and the
    radical electron; None for a transition element or an aromatic bond"""
    a = m._atoms[n]
    ve = valence_electrons(a.atomic_number)
    if ve is None or any(int(bd) == 4 for bd in m._bonds[n].values()):
        return None
    return ve - a.charge - sum(int(bd) for bd in m._bonds[n].values() if int(bd) != 8) - h - (1 if a.is_radical else 0)


def parity_exempt(m, n, h):
    """the two standing classes of odd-electron states of the tables, described by the state of the atom (the same two
    classes the theorem rule_electron_parity names): the elemental state - an uncharged, non-radical atom without bonds and
    hydrogens (`[Na]`, `[Al]`, `[P]`) - and bismuth(II) / bismuth(IV) without hydrogens"""
    a = m._atoms[n]
    if a.charge or a.is_radical or h:
        return False
    v = sum(int(bd) for bd in m._bonds[n].values() if int(bd) != 8)
    return v == 0 or (a.atomic_number == 83 and v in (2, 4))


def gen_rule_family():
    """deterministic: for every element the molecules its table speaks about.  An exception rule (charge, radical, n, env)
    stands for n + 1 compiled rules (n - k hydrogens replaced by k further single bonds): env + k carbons for k = 0..n, and
    env + one explicit hydrogen.  A common valence v: k carbons for k = 0..v, and one double / triple bond to carbon + carbons."""
    from chython.periodictable import Element
    out = []
    for cls in Element.__subclasses__():
        e0 = cls()
        sym = cls.__name__
        for v in e0._common_valences:
            for k in range(0, min(v, 8) + 1):
                out.append((('common', sym, v, k), cls(), [(1, 'C')] * k))
            for o in (2, 3):
                if o <= v <= 8:
                    out.append((('common-multi', sym, v, o), cls(), [(o, 'C')] + [(1, 'C')] * (v - o)))
        for i, (chg, rad, h, env) in enumerate(e0._valences_exceptions):
            if len(env) > 10:
                continue
            for k in range(h + 1):
                out.append((('rule', sym, i, k), cls(charge=chg, is_radical=rad), list(env) + [(1, 'C')] * k))
            if h:
                out.append((('rule+H', sym, i), cls(charge=chg, is_radical=rad), list(env) + [(1, 'H')]))
    return out


def order_compositions(v):
    """the ways of writing a valence v as bond orders 1..3 (non-increasing)"""
    out = []

    def rec(rest, top, acc):
        if rest == 0:
            out.append(list(acc))
            return
        for o in range(min(top, rest), 0, -1):
            rec(rest - o, o, acc + [o])
    rec(v, 3, [])
    return out


def gen_rule_perturbed():
    """thorough tier: ALL elements x ALL tabulated rules x ALL single perturbations (deterministic): neighbour list reversed;
    one more single bond to C / H, double bond to O, order-8 bond to Fe; every distinct neighbour dropped / given every other
    order 1-3 / replaced by C N O S; centre charge +-1; radical flag flipped.  Common valences: every composition of the valence
    (and of valence +- 1) into bond orders, to carbon."""
    from chython.periodictable import Element
    out = []
    for cls in Element.__subclasses__():
        e0 = cls()
        sym = cls.__name__
        for v in e0._common_valences:
            for w in sorted({v - 1, v, v + 1}):
                if 0 < w <= 8:
                    for comp in order_compositions(w):
                        if len(comp) < w:                # all-single environments are in the family already
                            out.append((('common-orders', sym, v, tuple(comp)), cls(), [(o, 'C') for o in comp]))
        for i, (chg, rad, h, env) in enumerate(e0._valences_exceptions):
            if len(env) > 10:
                continue
            env = list(env)

            def put(name, e, c=chg, r=rad):
                if -4 <= c <= 4:
                    out.append((('rule-' + name, sym, i), cls(charge=c, is_radical=r), e))
            if len(env) > 1 and env != env[::-1]:
                put('reverse', env[::-1])
            for name, extra in (('extraC', (1, 'C')), ('extraH', (1, 'H')), ('extraO2', (2, 'O')), ('any8', (8, 'Fe'))):
                put(name, env + [extra])
                put(name + '-first', [extra] + env)
            put('charge+1', env, c=chg + 1)
            put('charge-1', env, c=chg - 1)
            put('radical-flip', env, r=not rad)
            seen = set()
            for j, (o, el) in enumerate(env):
                if (o, el) in seen:
                    continue
                seen.add((o, el))
                put(f'drop{j}', env[:j] + env[j + 1:])
                for o2 in (1, 2, 3):
                    if o2 != o:
                        put(f'order{j}={o2}', env[:j] + [(o2, el)] + env[j + 1:])
                for el2 in ('C', 'N', 'O', 'S'):
                    if el2 != el:
                        put(f'elt{j}={el2}', env[:j] + [(o, el2)] + env[j + 1:])
    return out


RD_ORDER = None


def rd_total_hs(m):
    """RDKit's own hydrogen count of every atom of the bare graph (elements, charges, radicals, bonds; no hydrogen counts
    are handed over): {atom: total H} or None when RDKit refuses the graph or a bond has no RDKit counterpart"""
    from rdkit import Chem
    global RD_ORDER
    if RD_ORDER is None:
        RD_ORDER = {1: Chem.BondType.SINGLE, 2: Chem.BondType.DOUBLE, 3: Chem.BondType.TRIPLE}
    rw = Chem.RWMol()
    idx = {}
    for n, a in m.atoms():
        ra = Chem.Atom(a.atomic_number)
        ra.SetFormalCharge(a.charge)
        if a.is_radical:
            ra.SetNumRadicalElectrons(1)
        idx[n] = rw.AddAtom(ra)
    for n, k, bd in m.bonds():
        if int(bd) not in RD_ORDER:
            return None
        rw.AddBond(idx[n], idx[k], RD_ORDER[int(bd)])
    mol = rw.GetMol()
    try:
        Chem.SanitizeMol(mol)
    except Exception:
        return None
    return {n: mol.GetAtomWithIdx(i).GetTotalNumHs(includeNeighbors=True) for n, i in idx.items()}


def replay_build(centre, env):
    return ('from chython import MoleculeContainer\nfrom chython.periodictable import Element\nm = MoleculeContainer()\n'
            f'm.add_atom(Element.from_symbol({centre.atomic_symbol!r})(charge={centre.charge}, is_radical={centre.is_radical}))\n'
            f'for o, e in {list(env)!r}:\n    m.add_bond(1, m.add_atom(e), o)\n'
            'print(str(m), [(n, a.atomic_symbol, a.implicit_hydrogens) for n, a in m.atoms()], [h for h in range(9) if m.check_implicit(1, h)])')


def directed_tables(ck):
    """Runs on every check (so that it is known to be silent on the unchanged tree) and is THE directed search when a table
    theorem (tables_compile, rule_electron_parity, organic_octet) no longer builds: a changed rule must show as a concrete
    molecule of the real code.  Oracles, none of which reads chython's tables:
      compile   every element's _compiled_valence_rules can be built
      parity    electrons left on the centre (valence electrons by atomic number - charge - bonds - hydrogens - radical) are
                >= 0 and even, for the stored count and for EVERY count check_implicit accepts (rules shadowed by an earlier
                rule are reached this way); whole molecule: sum of atomic numbers + hydrogens - charge is even iff the number
                of radical atoms is even (main-group atoms only)
      octet     organic subset outside the hypervalent states: the stored count is the octet count
      rdkit     organic-subset atoms of graphs RDKit accepts: same total hydrogens (both sides having a count)"""
    from chython.periodictable import Element
    from rdkit import RDLogger
    RDLogger.DisableLog('rdApp.*')
    ck = Capped(ck, 6)
    for cls in Element.__subclasses__():
        try:
            cls()._compiled_valence_rules
        except Exception as e:
            ck.counterexample(f'tables-compile:{cls.__name__}', f'the valence table of {cls.__name__} cannot be compiled: {type(e).__name__}: {e}',
                              {'element': cls.__name__}, type(e).__name__, 'a rule dictionary', 'Element._compiled_valence_rules must be computable for all 118 elements',
                              replay_py=f'from chython.periodictable import {cls.__name__}; print(len({cls.__name__}()._compiled_valence_rules))')
    fam = gen_rule_family()
    if ck.tier == 'thorough':
        fam = fam + gen_rule_perturbed()
    for tag, centre, env in fam:
        try:
            m = build(centre, env)
        except Exception:
            ck.count('directed:build failed')
            continue
        a = m._atoms[1]
        sym, st = a.atomic_symbol, (a.atomic_symbol, a.charge, a.is_radical)
        ck.case(('directed',) + tag)
        ck.count('directed:molecules')
        if a.atomic_number == 1:
            ck.count('directed:hydrogen centre (its table is never consulted by calc_implicit / check_implicit)')
            continue
        stored = a.implicit_hydrogens
        accepted = [h for h in range(9) if m.check_implicit(1, h)]
        rp = replay_build(centre, env)
        inp = {'molecule': str(m), 'centre': {'element': sym, 'charge': a.charge, 'radical': a.is_radical},
               'bonds': [{'order': o, 'neighbour': e} for o, e in env]}
        # parity, atom level
        if valence_electrons(a.atomic_number) is not None:
            for h in ([stored] if stored is not None else []) + [h for h in accepted if h != stored]:
                le = lone_electrons(m, 1, h)
                if le is None or parity_exempt(m, 1, h):
                    ck.count('directed:parity exempt (elemental state, Bi(II)/Bi(IV))')
                    continue
                ck.count('directed:parity judged')
                if le < 0 or le % 2:
                    which = 'calc_implicit gives' if h == stored else 'check_implicit accepts'
                    ck.counterexample(f'rule-parity:{sym}:{a.charge}:{int(a.is_radical)}:{h}:{"".join(f"{o}{e}." for o, e in sorted(env))}',
                                      f'{which} {h} implicit hydrogen(s) on the {sym} of {m}: that leaves {le} electron(s) on the atom (must be even and >= 0)',
                                      inp, {'stored': stored, 'accepted by check_implicit': accepted}, 'an even, non-negative number of remaining electrons',
                                      'electron count from the atomic number (independent of the valence tables)', replay_py=rp)
        # parity, molecule level
        atoms = [x for _, x in m.atoms()]
        if all(x.implicit_hydrogens is not None for x in atoms) and all(valence_electrons(x.atomic_number) is not None for x in atoms) \
                and not any(parity_exempt(m, n, x.implicit_hydrogens) for n, x in m.atoms()) and not any(x.atomic_number == 1 for x in atoms):
            el = sum(x.atomic_number + x.implicit_hydrogens - x.charge for x in atoms)
            nr = sum(1 for x in atoms if x.is_radical)
            ck.count('directed:molecule parity judged')
            if el % 2 != nr % 2:
                ck.counterexample(f'mol-parity:{m}', f'{m} has {el} electrons and {nr} radical atom(s)', inp,
                                  [(n, x.atomic_symbol, x.implicit_hydrogens) for n, x in m.atoms()], 'even electron count iff even number of radical atoms',
                                  'sum of atomic numbers + implicit hydrogens - charge', replay_py=rp)
        # octet
        # (claimed on the space of the theorem organic_octet, explicit hydrogens added: at most four bonds to C N O S F Cl H)
        if sym in OCTET_ELECTRONS and abs(a.charge) <= 2 and st not in HYPERVALENT and len(env) <= 4 and \
                all(e in ('C', 'N', 'O', 'S', 'F', 'Cl', 'H') and o in (1, 2, 3) for o, e in env):
            env_n = [(o, 0) for o, _ in env if o != 8]
            o8 = octet(sym, a.charge, a.is_radical, env_n)
            ck.count('directed:octet judged')
            if (o8 is not None and stored is not None and stored != o8) or (o8 is None and stored is not None) or \
                    (o8 is not None and stored is None and st in OCTET_SUPPORTED):
                ck.counterexample(f'rule-octet:{sym}:{a.charge}:{int(a.is_radical)}:{"".join(f"{o}{e}." for o, e in sorted(env))}',
                                  f'hydrogen count of the {sym} of {m} differs from the octet rule (not a hypervalent state)', inp, stored, o8,
                                  'octet rule (independent of the tables)', replay_py=rp)
        # RDKit
        if not any(int(bd) in (4, 8) for *_, bd in m.bonds()):
            rd = rd_total_hs(m)
            if rd is None:
                ck.count('directed:rdkit refuses the graph')
            else:
                for n, x in m.atoms():
                    if x.atomic_symbol not in OCTET_ELECTRONS or x.implicit_hydrogens is None:
                        continue
                    if len(m) == 1:
                        continue            # a bare atom is the element itself for chython (`[B]`), a hydride for RDKit
                    ck.count('directed:rdkit atoms judged')
                    th = x.implicit_hydrogens + x.explicit_hydrogens
                    if th != rd[n]:
                        ck.counterexample(f'rule-rdkit:{m}:{n}', f'total hydrogens of atom {n} ({x.atomic_symbol}) of {m} differ from RDKit', inp, th, rd[n],
                                          'RDKit valence model on the bare graph (no hydrogen counts handed over)', replay_py=rp)
    ck.extra['directed_rule_molecules'] = len(fam)


# ---------------------------------------------------------------------------------------------------------------
# search: oracles on the real code that do not use the model

class Capped:
    """at most `limit` counterexamples per category (first component of the key), so that a systematic defect does not
    write thousands of replay files"""

    def __init__(self, ck, limit=8):
        self.ck, self.limit, self.seen = ck, limit, collections.Counter()

    def counterexample(self, key, *a, **kw):
        cat = key.split(':')[0]
        self.seen[cat] += 1
        self.ck.count('counterexamples:' + cat)
        if self.seen[cat] <= self.limit:
            self.ck.counterexample(key, *a, **kw)

    def __getattr__(self, name):
        return getattr(self.ck, name)


OPS = ['neutralize()', 'neutralize(keep_charge=False)', 'standardize_charges()', 'remove_coordinate_bonds()', 'remove_coordinate_bonds(keep_to_terminal=False)', 'clean_isotopes()',
       'fix_resonance()', 'remove_metals()', 'remove_acids()', 'split_metal_salts()']
OPS_EXTRA = ['[NH4+].[Cl-]', 'CC(=O)[O-].[Na+]', 'C[NH3+]', 'CC(=O)O[Na]', 'C[N+](C)(C)C.[OH-]', 'OC(=O)CC[NH3+]', '[O-]C1=CC=CC=C1', 'CS(=O)(=O)[O-]', 'C[S+](C)C', 'N~[Cu]~N', 'C~[Fe]',
             'N(C)(C)(C)~[Pd](Cl)Cl', 'O~[Mg]', 'CO~[Li]', 'CC(=O)O~[Na]', 'C1=CC=CC1~[Fe]', 'CC(=O)O.[Na]', 'Cl[Na]', 'CC(=O)O[K]', 'C[Mg]Br', 'CCO[Na]', '[Na+].[Cl-].O', 'OS(O)(=O)=O.NC',
             '[2H]C([2H])O', '[13CH3][O-]', 'C[N+]([O-])=O', '[CH2-][N+]#N', 'C=[N+]=[N-]', 'NC(N)=[NH2+]', 'CC([O-])=CC(C)=[OH+]', 'C[N+]1=CC=CC=C1.[I-]', 'CC(=O)O[Mg]OC(C)=O', 'CC(=O)O[Ca]O',
             'CS[K]', 'C[O-]~[Na+]', 'OP(=O)(O)O[Na]', 'O=S(=O)(O[Li])C(F)(F)F', 'CN(C)~[Li]', 'Oc1ccccc1~[K]']
OPS_LABELLED = ['CC(=O)O', 'CCN', 'C[NH3+].[Cl-]', 'OC(=O)CC[NH3+]', 'CC(=O)O[Na]', 'ClCCBr', 'CS(C)=O', 'N~[Cu]~N', 'C[N+](C)(C)C.[OH-]', 'O']
ALKALI = {3, 11, 19, 37, 55, 87, 4, 12, 20, 38, 56, 88}


def search(ck):
    ck = Capped(ck)
    from chython import smiles
    from chython.periodictable import H as HEl
    from rdkit import Chem, RDLogger
    from rdkit.Chem import Descriptors, rdMolDescriptors
    RDLogger.DisableLog('rdApp.*')
    rng = random.Random(f'{ck.seed}:c04:search')
    params = Chem.SmilesParserParams()
    params.removeHs = False
    pool = corpus.sample(corpus.lipo(), 2000 if ck.tier == 'quick' else 4200, ck.seed, 'c04search')
    extra = ['CCO', 'C[N+](=O)[O-]', 'OP(O)(O)=O', 'OS(O)(=O)=O', 'CS(C)=O', 'C[S+](C)C', 'c1ccncc1', 'c1cc[nH]c1', '[NH4+]', '[OH-]', 'CC(=O)[O-]',
             'C#N', '[C-]#[O+]', 'FC(F)(F)S(=O)(=O)N', 'ClC(Cl)Cl', 'BrCCBr', 'CI', 'C[Si](C)(C)C', 'OB(O)c1ccccc1', 'C[Se]C', 'O=[N+]([O-])c1ccccc1',
             'CP(C)C', 'C[P+](C)(C)C', 'c1ccsc1', 'c1ccoc1', 'C1CC1', '[2H]C([2H])([2H])O', '[13CH3]O', 'N#Cc1ccccc1', 'CN=[N+]=[N-]',
             '[H]C([H])([H])[H]', '[H]O[H]', '[H]N([H])C', '[H]c1ccccc1', 'C~[Fe]', 'N~[Cu]~N']
    n_ok = 0
    parsed = []
    for smi in extra + pool:
        try:
            m = smiles(smi)
            m.kekule()
        except Exception:
            continue
        rd = Chem.MolFromSmiles(smi, params)
        if rd is None:
            continue
        parsed.append((smi, m))
        if any(a.implicit_hydrogens is None for _, a in m.atoms()):
            ck.count('search:chython has no valence state for some atom (skipped for RDKit)')
            continue
        if rd.GetNumAtoms() != len(m) or any(a.atomic_number != ra.GetAtomicNum() for (_, a), ra in zip(m.atoms(), rd.GetAtoms())):
            ck.count('search:atom order differs (skipped)')
            continue
        ck.case(('rdkit', smi))
        ck.count('search:rdkit molecules')
        rp = f"from chython import smiles; m = smiles({smi!r}); m.kekule(); print([(n, a.atomic_symbol, a.implicit_hydrogens) for n, a in m.atoms()], m.brutto, int(m), float(m))"
        bad = False
        for (n, a), ra in zip(m.atoms(), rd.GetAtoms()):
            th = a.implicit_hydrogens + a.explicit_hydrogens
            ck.count('search:rdkit atoms')
            if th != ra.GetTotalNumHs(includeNeighbors=True):
                bad = True
                ck.counterexample(f'rdkit-H:{smi}:{n}', f'total hydrogens of atom {n} ({a.atomic_symbol}) differ from RDKit', {'smiles': smi, 'atom': n},
                                  th, ra.GetTotalNumHs(includeNeighbors=True), 'RDKit valence model (GetTotalNumHs)', replay_py=rp)
                break
        if bad:
            continue
        fr = collections.Counter()
        for sym, k in re.findall(r'([A-Z][a-z]?)(\d*)', re.sub(r'[+-]\d*$', '', rdMolDescriptors.CalcMolFormula(rd, False))):
            fr[sym] += int(k or 1)
        br = {k: v for k, v in m.brutto.items() if v}
        if dict(fr) != br:
            ck.counterexample(f'rdkit-formula:{smi}', 'molecular formula differs from RDKit', {'smiles': smi}, br, dict(fr), 'RDKit CalcMolFormula', replay_py=rp)
        if int(m) != Chem.GetFormalCharge(rd):
            ck.counterexample(f'rdkit-charge:{smi}', 'total charge differs from RDKit', {'smiles': smi}, int(m), Chem.GetFormalCharge(rd), 'RDKit', replay_py=rp)
        if not any(a.isotope for _, a in m.atoms()):
            mw = Descriptors.MolWt(rd)
            if abs(mw - float(m)) > 0.02 + 3e-5 * mw:
                ck.counterexample(f'rdkit-mass:{smi}', 'molecular mass differs from RDKit average molecular weight', {'smiles': smi}, float(m), mw,
                                  'RDKit Descriptors.MolWt (tolerance 0.02 + 3e-5 m: the two isotope tables differ slightly)', replay_py=rp)
        n_ok += 1
    ck.extra['rdkit_agreements'] = n_ok
    # the delocalised branch on real rings: the count calc_implicit gives an aromatic atom of the molecule AS READ equals the
    # count the localised rules give the same atom after kekule(), and RDKit's count
    for smi, mk in parsed[:1200 if ck.tier == 'quick' else 4200]:
        try:
            m0 = smiles(smi)
        except Exception:
            continue
        ar = [n for n in m0 if any(int(bd) == 4 for bd in m0._bonds[n].values())]
        if not ar or list(m0._atoms) != list(mk._atoms):
            continue
        rd = Chem.MolFromSmiles(smi, params)
        same_order = rd is not None and rd.GetNumAtoms() == len(m0) and all(a.atomic_number == ra.GetAtomicNum() for (_, a), ra in zip(m0.atoms(), rd.GetAtoms()))
        c0 = m0.copy()
        ck.case(('aromatic-ring', smi))
        for i, n in enumerate(m0):
            if n not in ar:
                continue
            c0.calc_implicit(n)
            h = c0._atoms[n].implicit_hydrogens
            ck.count('search:aromatic atoms ' + ('with a count' if h is not None else 'left to kekule()'))
            if h is None:
                continue
            hk = mk._atoms[n].implicit_hydrogens
            hr = rd.GetAtomWithIdx(i).GetTotalNumHs(includeNeighbors=True) - m0._atoms[n].explicit_hydrogens if same_order else hk
            if h != hk or h != hr:
                ck.counterexample(f'aromatic-kekule:{smi}:{n}', f'hydrogen count of aromatic atom {n} differs from its count in the Kekule form / from RDKit',
                                  {'smiles': smi, 'atom': n}, h, {'after kekule()': hk, 'RDKit': hr}, 'localised valence rules on the Kekule form + RDKit',
                                  replay_py=f"from chython import smiles; m = smiles({smi!r}); m.calc_implicit({n}); print(m.atom({n}).implicit_hydrogens); m.kekule(); print(m.atom({n}).implicit_hydrogens)")
                break
    # totals re-derived from the atoms (fresh objects, so no cache can help)
    hm = exact_atomic_mass(HEl())
    for smi, m in parsed:
        if any(a.implicit_hydrogens is None for _, a in m.atoms()):
            continue
        ck.case(('rederive', smi))
        cnt = collections.Counter(a.atomic_symbol for _, a in m.atoms())
        cnt['H'] += sum(a.implicit_hydrogens for _, a in m.atoms())
        f = m.copy()
        rp = f"from chython import smiles; m = smiles({smi!r}); m.kekule(); print(m.brutto, int(m), m.is_radical, float(m))"
        if dict(f.brutto) != dict(cnt):
            ck.counterexample(f'rederive-formula:{smi}', 'brutto is not the sum over atoms incl. implicit hydrogens', {'smiles': smi}, dict(f.brutto), dict(cnt), 'sum over atoms', replay_py=rp)
        if int(f) != sum(a.charge for _, a in m.atoms()):
            ck.counterexample(f'rederive-charge:{smi}', 'molecular_charge is not the sum over atoms', {'smiles': smi}, int(f), sum(a.charge for _, a in m.atoms()), 'sum over atoms', replay_py=rp)
        if f.is_radical != any(a.is_radical for _, a in m.atoms()):
            ck.counterexample(f'rederive-radical:{smi}', 'is_radical is not the disjunction over atoms', {'smiles': smi}, f.is_radical, not f.is_radical, 'any over atoms', replay_py=rp)
        ex = float(sum(exact_atomic_mass(a) + a.implicit_hydrogens * hm for _, a in m.atoms()))
        if abs(float(f) - ex) > 1e-9 * max(1.0, ex):
            ck.counterexample(f'rederive-mass:{smi}', 'molecular_mass is not the sum of atomic masses incl. implicit hydrogens', {'smiles': smi}, float(f), ex, 'exact rational sum over the isotope tables', replay_py=rp)
    # isotope labels: one atom of EVERY element with EVERY label its tables hold (the most common isotope included) as a molecule of its
    # own, and corpus molecules with a few labelled atoms - mass against the exact sum re-derived from the isotope tables (labelled atom =
    # the mass of that isotope, never the natural average), against RDKit's isotope masses (Z <= 92; the tables agree to 2e-3) and
    # against the mass number (a nuclide weighs its mass number to 0.25 u)
    from chython.periodictable import Element
    pt = Chem.GetPeriodicTable()
    for cls in Element.__subclasses__():
        for iso in isotope_labels(cls):
            try:
                m = MoleculeContainerOf(cls(isotope=iso) if iso is not None else cls())
            except Exception:
                ck.count('search:isotope atom could not be built')
                continue
            a = m._atoms[1]
            h = a.implicit_hydrogens or 0
            ck.case(('isotope-mass', cls.__name__, iso), nontrivial=iso is not None)
            ck.count('search:isotope-labelled single atoms' if iso is not None else 'search:unlabelled single atoms')
            try:
                got = m.molecular_mass
                ex = float(exact(a.isotopes_masses[iso]) + h * hm) if iso is not None else float(exact_atomic_mass(a) + h * hm)
            except Exception:
                ck.count('search:isotope mass raised')
                continue
            refs = {'exact sum over the isotope tables': (ex, 1e-9 * max(1.0, ex))}
            if iso is not None:
                refs['mass number'] = (iso + h * 1.008, 0.25)
                if a.atomic_number <= 92:
                    try:
                        refs['RDKit GetMassForIsotope'] = (pt.GetMassForIsotope(a.atomic_number, iso) + h * pt.GetAtomicWeight(1), 3e-3)
                    except Exception:
                        pass
            for name, (ref, tol) in refs.items():
                if ref > 0 and abs(got - ref) > tol:
                    lab = f'[{iso or ""}{cls.__name__}]'
                    ck.counterexample(f'isotope-mass:{cls.__name__}:{iso}', f'molecular_mass of the one-atom molecule {lab} (+ {h} implicit H) is not the mass of that '
                                      'isotope plus the hydrogens' if iso is not None else f'molecular_mass of the one-atom molecule {lab} is not the natural-abundance mass plus the hydrogens',
                                      {'element': cls.__name__, 'isotope': iso, 'implicit_hydrogens': h}, got, {name: ref, 'tolerance': tol}, name,
                                      replay_py=f"from chython import MoleculeContainer\nfrom chython.periodictable import {cls.__name__}\nm = MoleculeContainer(); m.add_atom({cls.__name__}({'isotope=%d' % iso if iso is not None else ''}))\n"
                                                f"print(m.molecular_mass, m.atom(1).atomic_mass, m.atom(1).isotopes_masses.get({iso}), m.atom(1).implicit_hydrogens)")
                    break
    for smi, m0 in parsed[:150 if ck.tier == 'quick' else 1500]:
        if any(a.implicit_hydrogens is None for _, a in m0.atoms()):
            continue
        try:
            m = labelled_copy(m0, rng)
        except Exception:
            ck.count('search:labelled copy raised')
            continue
        labs = [(n, a.isotope) for n, a in m.atoms() if a.isotope]
        ck.case(('labelled-mass', smi, tuple(labs)), nontrivial=bool(labs))
        ck.count('search:labelled corpus molecules')
        ex = float(sum((exact(a.isotopes_masses[a.isotope]) if a.isotope else exact_atomic_mass(a)) + a.implicit_hydrogens * hm for _, a in m.atoms()))
        got = float(m)
        if abs(got - ex) > 1e-9 * max(1.0, ex):
            ck.counterexample(f'labelled-mass:{smi}:{labs}', 'molecular_mass of a molecule with isotope-labelled atoms is not the sum of the labelled isotopes\' masses, the natural '
                              'masses of the unlabelled atoms and of the implicit hydrogens', {'smiles': smi, 'labels (atom, isotope)': labs}, got, ex,
                              'exact rational sum over the isotope tables',
                              replay_py=f"from chython import smiles; m = smiles({smi!r}); m.kekule()\nfor n, i in {labs!r}: m.atom(n).isotope = i\nm.flush_cache(); print(float(m))")
    # reported atoms == atoms without any accepted hydrogen count, on perturbed molecules (localised bonds)
    sub = parsed[:400 if ck.tier == 'quick' else 4000]
    for smi, m0 in sub:
        m = m0.copy()
        atoms = list(m._atoms)
        n = rng.choice(atoms)
        kind = rng.choice(['charge', 'charge', 'radical', 'order', 'none'])
        if kind == 'charge':
            m._atoms[n]._charge = max(-4, min(4, m._atoms[n].charge + rng.choice([-1, 1, 2])))
        elif kind == 'radical':
            m._atoms[n]._is_radical = not m._atoms[n].is_radical
        elif kind == 'order' and m._bonds[n]:
            k = rng.choice(list(m._bonds[n]))
            m._bonds[n][k]._order = rng.choice([1, 2, 3])
        m.flush_cache()
        m._changed = None
        try:
            m.fix_structure()
        except Exception:
            continue
        reported = set(m.check_valence())
        ck.count(f'search:perturbed({kind}) reported={min(len(reported), 3)}')
        ck.case(('nostate', smi, n, kind), nontrivial=bool(reported))
        for k, a in m.atoms():
            if any(int(bd) == 4 for bd in m._bonds[k].values()):
                continue
            nostate = a.atomic_number != 1 and not any(m.check_implicit(k, h) for h in range(9))
            if nostate != (k in reported):
                ck.counterexample(f'nostate:{smi}:{n}:{kind}:{k}', 'check_valence does not report exactly the atoms without a valence state',
                                  {'smiles': smi, 'perturbed_atom': n, 'perturbation': kind, 'atom': k}, k in reported, nostate,
                                  'brute force: no h in 0..8 passes check_implicit')
            elif not nostate and a.implicit_hydrogens is not None and not (a.atomic_number == 1 or m.check_implicit(k, a.implicit_hydrogens)):
                ck.counterexample(f'stored-not-accepted:{smi}:{n}:{kind}:{k}', 'stored hydrogen count is not accepted by check_implicit',
                                  {'smiles': smi, 'perturbed_atom': n, 'perturbation': kind, 'atom': k}, a.implicit_hydrogens, 'accepted', 'check_implicit')
    # totals are the sums over atoms ALSO after the documented way of editing (`with mol: mol.atom(n).charge = x`), with the
    # totals read (hence cached) before the edit: the sums are re-derived from the atoms themselves
    for smi, m0 in parsed[:150 if ck.tier == 'quick' else 1500]:
        if any(a.implicit_hydrogens is None for _, a in m0.atoms()):
            continue
        for kind in ('charge', 'radical', 'charge+atom'):
            m = m0.copy()
            _ = (m.brutto, int(m), m.is_radical, float(m))      # fill the cache
            cand = [n for n, a in m.atoms() if a.atomic_number in (7, 8, 16) and a.charge == 0 and not a.is_radical and a.implicit_hydrogens]
            if not cand:
                break
            n = cand[0]
            try:
                with m:
                    if kind == 'radical':
                        m.atom(n).is_radical = True
                    else:
                        m.atom(n).charge = -1
                    if kind == 'charge+atom':
                        m.add_atom('C')
            except Exception:
                continue
            ck.case(('txn-totals', smi, kind))
            ck.count(f'search:txn-totals({kind})')
            if any(a.implicit_hydrogens is None for _, a in m.atoms()):
                continue
            cnt = collections.Counter(a.atomic_symbol for _, a in m.atoms())
            cnt['H'] += sum(a.implicit_hydrogens for _, a in m.atoms())
            cnt = {k: v for k, v in cnt.items() if v}
            obs = ({k: v for k, v in m.brutto.items() if v}, int(m), m.is_radical)
            exp = (cnt, sum(a.charge for _, a in m.atoms()), any(a.is_radical for _, a in m.atoms()))
            ex = float(sum(exact_atomic_mass(a) + a.implicit_hydrogens * hm for _, a in m.atoms()))
            if obs != exp or abs(float(m) - ex) > 1e-9 * max(1.0, ex):
                ck.counterexample(f'txn-totals:{kind}:{smi}', 'after reading the totals and editing an atom inside `with mol:` the formula / charge / radical flag / mass '
                                  'are not the sums over the atoms incl. implicit hydrogens', {'smiles': smi, 'atom': n, 'edit': kind}, [obs, float(m)], [exp, ex],
                                  'sums re-derived from the atoms',
                                  replay_py=f"from chython import smiles; m=smiles({smi!r}); m.kekule(); print(m.brutto,int(m)); \nwith m: m.atom({n}).charge=-1\nprint(m.brutto,int(m),[(k,a.charge,a.implicit_hydrogens) for k,a in m.atoms()])")
                break
    # union / split / substructure on the real code (see compose_oracles)
    for i in range(0, min(len(parsed) - 1, 240 if ck.tier == 'quick' else 2400), 2):
        (s1, m1), (s2, m2) = parsed[i], parsed[i + 1]
        ck.case(('split', s1, s2))
        ck.count('search:union / split / substructure pairs')
        compose_oracles(ck, (s1, s2), m1, m2, rng)
    # split() keeps the stored counts (no recalculation): on molecules AS READ, whose aromatic heteroatoms carry the count the
    # SMILES gave them ([nH]) and would get None from calc_implicit, every atom keeps its count through split()
    n_ar = 0
    for smi, _mk in parsed:
        if n_ar >= (150 if ck.tier == 'quick' else 1500):
            break
        if '[nH]' not in smi and '[n+]' not in smi and 'o' not in smi and 's' not in smi:
            continue
        try:
            m0 = smiles(smi)
        except Exception:
            continue
        if not any(int(bd) == 4 for *_, bd in m0.bonds()):
            continue
        n_ar += 1
        ck.case(('split-as-read', smi))
        ck.count('search:split of aromatic molecules as read')
        before = {n: x.implicit_hydrogens for n, x in m0.atoms()}
        after = {n: x.implicit_hydrogens for p_ in m0.split() for n, x in p_.atoms()}
        if before != after:
            ck.counterexample(f'split-keeps-h:{smi}', 'split() changed stored hydrogen counts (it must copy them: recalculate_hydrogens=False)', {'smiles': smi},
                              {n: (before[n], after.get(n)) for n in before if before[n] != after.get(n)}, 'unchanged counts', 'atoms of the parts vs atoms of the molecule',
                              replay_py=f"from chython import smiles; m = smiles({smi!r}); print([(n, a.implicit_hydrogens) for n, a in m.atoms()], [[(n, a.implicit_hydrogens) for n, a in p.atoms()] for p in m.split()])")
    # canonicalize() writes hydrogen counts itself (implicify_hydrogens, thiele, saved Kekule orders put back with keep_kekule): every
    # stored count of the result must be a valence state of its atom (charged molecules first)
    order = sorted(range(len(parsed)), key=lambda i_: ('+' not in parsed[i_][0], i_))
    for i_ in order[:150 if ck.tier == 'quick' else 1500]:
        smi = parsed[i_][0]
        for kk in (True, False):
            try:
                m = smiles(smi)
                m.canonicalize(keep_kekule=kk)
            except Exception:
                ck.count('search:canonicalize raised')
                continue
            ck.case(('canon-state', smi, kk))
            ck.count('search:canonicalize results judged')
            bad = stored_states_ok(m)
            if bad:
                ck.counterexample(f'stored-state:canonicalize-corpus:{smi}:{kk}', f'after canonicalize(keep_kekule={kk}) an atom carries a hydrogen count that is not a valence state '
                                  'of its element, charge and bonds', {'smiles': smi, 'keep_kekule': kk}, [{'atom': n, 'element': e, 'stored': h, 'accepted': acc} for n, e, h, acc in bad],
                                  'stored count accepted by check_implicit', 'check_implicit(n, h) for h = 0..8 on the result',
                                  replay_py=f"from chython import smiles; m = smiles({smi!r}); m.canonicalize(keep_kekule={kk}); print(str(m), [(n, a.atomic_symbol, a.implicit_hydrogens, [h for h in range(9) if m.check_implicit(n, h)]) for n, a in m.atoms()])")
    # every other public operation that edits charges / bonds / atoms in place (neutralisation, charge standardisation, salts, coordinate
    # bonds, resonance, isotopes): afterwards every stored count must be a valence state, and - when the input's counts were fresh and the
    # result has localised bonds - the result rebuilt from scratch must carry the same counts
    ops_pool = OPS_EXTRA + STD_COVALENT + corpus.sample(corpus.lipo(), 20 if ck.tier == 'quick' else 600, ck.seed, 'c04ops')
    ops_pool = [(smi, False) for smi in ops_pool] + [(smi, True) for smi in OPS_LABELLED + ops_pool[:25 if ck.tier == 'quick' else 300]]
    for smi, relabel in ops_pool:
        try:
            m0 = smiles(smi)
            m0.kekule()
            if relabel:      # seed-chosen isotope labels on up to three atoms (so that clean_isotopes has something to do)
                m0 = labelled_copy(m0, random.Random(f'{ck.seed}:{smi}'))
        except Exception:
            continue
        labs = [(n, a.isotope) for n, a in m0.atoms() if a.isotope]
        h_in = {n: a.implicit_hydrogens for n, a in m0.atoms()}
        try:
            fresh_in = h_in == {n: a.implicit_hydrogens for n, a in rebuild(m0).atoms()}
        except Exception:
            fresh_in = False
        for op in OPS:
            m = m0.copy()
            warm_totals(m)           # the totals were looked at (hence cached) before the operation
            try:
                changed = eval('m.' + op, {'m': m})
            except Exception as e:
                ck.count(f'search:ops:{op} raised {type(e).__name__}')
                continue
            ck.case(('op-state', smi, tuple(labs), op), nontrivial=bool(changed))
            ck.count(f'search:ops:{op} ' + ('changed the molecule' if changed else 'left it alone') + (' (labelled input)' if labs else ''))
            if not changed:
                continue
            setup = f"from chython import smiles; m = smiles({smi!r}); m.kekule()\nfor n, i in {labs!r}: m.atom(n).isotope = i\nm.flush_cache()\n"
            tb = live_totals_bad(m)
            if tb:
                ck.counterexample(f'ops-totals:{op}:{smi}:{labs}', f'formula / charge / radical flag / mass were read, then {op} was called: the totals the molecule answers afterwards are not the sums over its atoms '
                                  'incl. implicit hydrogens (a total cached before the operation survived it)', {'smiles': smi, 'isotope labels (atom, isotope)': labs, 'operation': op}, tb[0], tb[1],
                                  'sums re-derived from the atoms of the result (exact rationals over the isotope tables for the mass)',
                                  replay_py=setup + f"print(m.brutto, int(m), m.is_radical, float(m)); print(m.{op}); print(m.brutto, int(m), m.is_radical, float(m), [(a.atomic_symbol, a.isotope, a.charge, a.implicit_hydrogens) for _, a in m.atoms()])")
            if any(int(bd) == 4 for *_, bd in m.bonds()):
                continue
            rp = setup + f"print(m.{op}, str(m), [(n, a.atomic_symbol, a.charge, a.implicit_hydrogens, [h for h in range(9) if m.check_implicit(n, h)]) for n, a in m.atoms()], m.check_valence())"
            bad = stored_states_ok(m)
            stale = {}
            if not bad and fresh_in:
                try:
                    hx = {n: a.implicit_hydrogens for n, a in rebuild(m).atoms()}
                    stale = {n: (a.implicit_hydrogens, hx[n]) for n, a in m.atoms() if a.implicit_hydrogens != hx[n]}
                except Exception:
                    ck.count('search:ops:rebuild raised')
            if bad or stale:
                # known: split_metal_salts() cuts a COORDINATE bond (order 8) between a group I / II metal and an acceptor as if it were ionic
                coord = op == 'split_metal_salts()' and bad and all(any(int(bd) == 8 and m0._atoms[k].atomic_number in ALKALI for k, bd in m0._bonds[n].items()) for n, *_ in bad)
                key = 'ops-state:split_metal_salts:coordinate-bond' if coord else f'ops-state:{op}:{smi}'
                ck.counterexample(key, f'after {op} an atom carries a hydrogen count that is not a valence state of its element, charge and bonds (the operation changed its charge / bonds and '
                                  'kept the old count), so check_valence() does not report it and the formula counts a hydrogen too many / too few' if bad else
                                  f'after {op} the hydrogen counts differ from the same structure built from scratch', {'smiles': smi, 'operation': op},
                                  [{'atom': n, 'element': e, 'stored': h, 'accepted': acc} for n, e, h, acc in bad] if bad else stale,
                                  'stored count accepted by check_implicit (None only if no count is accepted); equal to the count of the rebuilt structure',
                                  'check_implicit(n, h) for h = 0..8 on the result / rebuild through add_atom + add_bond', replay_py=rp)
    # boundary: the empty molecule
    from chython import MoleculeContainer
    try:
        v = float(MoleculeContainer())
        if v != 0.0:
            ck.counterexample('float-empty-value', 'float(MoleculeContainer()) is not 0.0', {}, v, 0.0, 'empty sum')
    except Exception as e:
        ck.counterexample('float-empty', 'float() of the empty molecule raises (molecular_mass is the int 0, __float__ must return a float)', {},
                          type(e).__name__, 0.0, 'empty sum', replay_py='from chython import MoleculeContainer; print(float(MoleculeContainer()))')
    # additivity over union and invariance under renumbering
    for i in range(0, min(len(parsed) - 1, 300 if ck.tier == 'quick' else 3000), 2):
        (s1, m1), (s2, m2) = parsed[i], parsed[i + 1]
        if any(a.implicit_hydrogens is None for mm in (m1, m2) for _, a in mm.atoms()):
            continue
        ck.case(('union', s1, s2))
        u = m1.union(m2, remap=True)
        b1, b2 = m1.copy().brutto, m2.copy().brutto
        bs = {k: b1.get(k, 0) + b2.get(k, 0) for k in set(b1) | set(b2)}
        if dict(u.brutto) != bs or int(u) != int(m1.copy()) + int(m2.copy()) or abs(float(u) - float(m1.copy()) - float(m2.copy())) > 1e-6:
            ck.counterexample(f'union:{s1}:{s2}', 'formula / charge / mass of a union is not the sum of the parts', {'a': s1, 'b': s2},
                              [dict(u.brutto), int(u), float(u)], [bs, int(m1.copy()) + int(m2.copy()), float(m1.copy()) + float(m2.copy())], 'additivity')
        r = corpus.renumber(m1, rng)
        r._changed = None
        r.fix_structure()
        hs1 = sorted((a.atomic_number, a.charge, a.implicit_hydrogens if a.implicit_hydrogens is not None else -1) for _, a in m1.atoms())
        hs2 = sorted((a.atomic_number, a.charge, a.implicit_hydrogens if a.implicit_hydrogens is not None else -1) for _, a in r.atoms())
        if hs1 != hs2 or dict(r.brutto) != dict(m1.copy().brutto):
            ck.counterexample(f'renumber:{s1}', 'hydrogen counts / formula change under renumbering + recalculation', {'smiles': s1}, hs2, hs1, 'renumbering invariance')


def run(ck):
    ck.trusted += ['translators tools/gen_elements.py (Python ast over periodictable/group*.py), tools/gen_valence_src.py (ast over calc_implicit / check_implicit / implicify_hydrogens / Standardize.__standardize), tools/gen_valence_bodies.py (statement compiler over the bodies of Element._compiled_valence_rules / valence_rules / atomic_mass and MoleculeContainer.molecular_charge / is_radical / molecular_mass / brutto; run-time library coq/model/ValenceSrcLib.v)',
                   'correspondence runner harness/checks/C04.py + harness/coqcases.py + harness/coqmol.py',
                   'CachedMethods shim harness/boot.py', 'CPython 3.12.1', 'RDKit 2026.3 (search only)']
    ck.assumptions += ['calc_implicit / check_implicit / _compiled_valence_rules / totals / check_valence (coq/model/Valence.v) and union / substructure / '
                       'split (coq/model/ValenceArom.v) are hand-modelled; _compiled_valence_rules, valence_rules, atomic_mass and the totals are proved equal to their bodies '
                       'translated from the source on every run (Gen.ValenceBodies); for the rest the tie = '
                       'exact comparison of all 118 compiled tables, exhaustive comparison on the organic environment space and comparison on '
                       'rule-directed, random, malformed and corpus molecules',
                       'molecular_mass is modelled over exact decimals (x 10^24); the float result of the code is compared with the exact value '
                       'to relative 1e-9',
                       'the chemistry of the tables beyond octet agreement / electron parity is not shown; aromatic (delocalised) atoms: '
                       'calc_implicit handles neutral aromatic carbon only and check_implicit refuses aromatic bonds - characterised exactly, '
                       'tied exhaustively and proved consistent with the table of carbon on the Kekule spelling; that kekule() yields such a '
                       'spelling is property C05',
                       'union / substructure / split are modelled as far as atoms, bonds and hydrogen counts go (Model.ValenceArom); stereo labels '
                       '(fix_stereo) and ring labels are not; the connected components are an input of the split model (perception is C06), the '
                       'correspondence checks that the real components are a partition closed under bonds',
                       'Standardize.implicify_hydrogens is hand-modelled (ValenceArom.implicify: atoms, bonds, counts, exceptions), tied on whole '
                       'results; theorem implicify_sound is about that model (well-formed molecules, atoms without aromatic bonds); canonicalize is NOT modelled (standardize rules / kekule / thiele are C14 / C05): its results are judged - '
                       'every stored count must be a valence state - by the model and, independently, by the real check_implicit and RDKit',
                       'ring perception used by calc_labels (in_ring, ring_sizes) is not part of this model (C06)']
    ck.extra['rule'] = ('tables: the 118 live _compiled_valence_rules + random valence_rules lookups (non-trivial = key exists). exhaustive: '
                        '12 elements x charge -2..2 x radical x every multiset of <= 4 bonds (orders 1-3 to C N O S F Cl) as real molecules, each with '
                        'calc_implicit and check_implicit(0..5) (non-trivial = a hydrogen count exists). molecules: one per tabulated rule of every '
                        'element + perturbed copy, common valences, random centres of all elements, hand-made malformed ones, corpus molecules as read '
                        'and in Kekule form; every atom and every total compared. search: RDKit per atom, totals re-derived, perturbed molecules for '
                        'the valence-check clause, unions, renumberings. aromatic: C N O S B P Si H Fe x charge -2..2 x radical x 4791 ordered neighbour '
                        'lists containing an aromatic bond (non-trivial = neutral carbon with a count). compose: hand-made and corpus molecules (as read '
                        'and Kekule) x union with the next molecule (overlapping / disjoint numbers, remap on / off), substructure over 7 kinds of '
                        'selections x recalculation on / off, split. writers: N,N\'-disubstituted azolium cations (12 ring templates x substituent pairs, charge on '
                        'either nitrogen, aromatic and Kekule spelling) x canonicalize(keep_kekule, fix_tautomers); hydrides with 1..6 explicit hydrogens '
                        '(more than can be made implicit) x implicify_hydrogens, explicify + implicify; SMILES with isotopes / H-H / over-bonded hydrogens; '
                        'fully explicified corpus molecules. directed: every tabulated rule with 0..n hydrogens replaced by carbons')
    import time
    t = [time.time()]

    def lap(name):
        t.append(time.time())
        ck.extra.setdefault('step_seconds', {})[name] = round(t[-1] - t[-2], 1)

    proved = common.standard_proof_steps(ck, translators=['elements', 'valence_src', 'valence_bodies'])
    directed_done = False
    if not proved:
        # a translator / table theorem broke: look for a concrete molecule FIRST (whatever happens to the later steps), then
        # build the model files the correspondence needs (they do not depend on the proof files)
        try:
            directed_tables(ck)
            directed_done = True
        except Exception as e:
            ck.count(f'directed search crashed: {type(e).__name__}')
        common.coq_make(['model/Valence.vo', 'model/ValenceArom.vo'])
    lap('proof')
    tied_a = corr_tables(ck)
    lap('tables')
    tied_b = corr_exhaustive(ck)
    lap('exhaustive')
    tied_d = corr_aromatic(ck)
    lap('aromatic')
    tied_c = corr_molecules(ck)
    lap('molecules')
    tied_e = corr_compose(ck)
    lap('compose')
    tied_f = corr_writers(ck)
    lap('writers')
    tied_g = corr_histories(ck)
    lap('histories')
    tied_g = corr_std_rules(ck) and tied_g
    lap('std-rules')
    if not directed_done:
        directed_tables(ck)
    lap('directed')
    search(ck)
    lap('search')
    ck.extra['proved'] = proved
    ck.extra['tied'] = bool(tied_a and tied_b and tied_c and tied_d and tied_e and tied_f and tied_g)
