"""C01 canonical SMILES / equality / hash depend on the structure only.
Model: coq/model/Morgan.v (`_morgan`, `Morgan.atoms_order`, `int_adjacency`, `Element.__hash__`, `Bond.__hash__`,
`Smiles.__eq__/__hash__`) with the bit-exact CPython 3.12 tuple/int hash of coq/model/PyHash.v.
Theorems: coq/proofs/MorganProofs.v and coq/proofs/WriterInvProofs.v (writer model, read-only from C02), restated in coq/props/C01.v.
Correspondence: the real `hash(atom)`, `int_adjacency`, `_morgan` (result dict in insertion order, the labels before the
final ranking observed through the `sorted` call of the ranking, KeyError on malformed dicts) and `mol.atoms_order`
against the model, on corpus + generated molecules, their renumberings and insertion-order shuffles, and on raw dicts;
the writer model's start atom / first child and, on small molecules, whole canonical string and written order.
Search (real code only, independent of the model): renumber / rebuild in another insertion order through the public
API / re-spell with chython's random writer and with RDKit -> canonical string, ==, hash must agree; the two documented
gap classes are recognised by an independent symmetry oracle (own colour refinement, cross-checked with RDKit ranks).
Round 4: _morgan / atoms_order / int_adjacency / Element.__hash__ / Bond.__hash__ (tools/gen_morganbody.py), the weight-dependent sort
keys of _smiles (tools/gen_smileskeys.py) and the stereo block of _format_atom (tools/gen_atomstereo.py) are TRANSLATED from the source on
every run and proved equal to the models (props C01_*_translated_source); the translated Morgan functions are also evaluated against the
implementation (cases c01g).  Search: written-string oracles (canonical fixed point, a spelling starting at every labelled centre, RDKit
as judge of input vs written string) and a generated family of centres with an explicit hydrogen atom."""
import itertools
import random

import boot  # noqa
import common
import coqcases
import corpus
from coqfmt import zraw, b, lst, tup, opt
from coqmol import mol_term, atom_term

replay = common.generic_replay


# =============================================================================================================
# independent symmetry oracle (never calls chython's morgan / smiles code)

def atom_colour(a, ring):
    return (a.atomic_number, a.isotope or 0, a.charge, bool(a.is_radical), a.implicit_hydrogens or 0, bool(ring))


def own_bridges(adj):
    """bonds whose removal disconnects their end points (plain DFS per bond; molecules are small)"""
    out = set()
    for n, ms in adj.items():
        for m in ms:
            if n < m:
                seen = {n}
                stack = [n]
                found = False
                while stack and not found:
                    x = stack.pop()
                    for y in adj[x]:
                        if x == n and y == m:
                            continue
                        if y == m:
                            found = True
                            break
                        if y not in seen:
                            seen.add(y)
                            stack.append(y)
                if not found:
                    out.add((n, m))
                    out.add((m, n))
    return out


def own_in_ring(mol):
    """atoms that have a ring bond; special (order 8) bonds are not part of ring perception"""
    adj = {n: [m for m, bd in mb.items() if int(bd) != 8] for n, mb in mol._bonds.items()}
    br = own_bridges(adj)
    return {n for n, ms in adj.items() if any((n, m) not in br for m in ms)}, adj, br


def own_classes(mol, with_ring=True):
    """stable colour refinement (1-WL) on exact tuples: atom -> class index"""
    ring = own_in_ring(mol)[0] if with_ring else set()
    col = {n: atom_colour(a, n in ring) for n, a in mol._atoms.items()}
    ids = {c: i for i, c in enumerate(sorted(set(col.values())))}
    col = {n: ids[c] for n, c in col.items()}
    while True:
        new = {n: (col[n], tuple(sorted((col[m], int(bd)) for m, bd in mol._bonds[n].items()))) for n in col}
        ids = {c: i for i, c in enumerate(sorted(set(new.values())))}
        new = {n: ids[c] for n, c in new.items()}
        if len(set(new.values())) == len(set(col.values())):
            return new
        col = new


def gap_classes(mol):
    """which of the two documented heuristic gaps the molecule belongs to ('stereo-sym', 'cage'), plus 'bond-tie': an atom
    with two symmetry-equivalent neighbours that are attached by bonds of different order (annulenes with localised bonds
    such as cyclooctatetraene) - not a documented gap: found by this check, fixed in /repo (2e3e6bb), judged like any molecule"""
    out = set()
    cls = own_classes(mol)
    bonds = mol._bonds
    atoms = mol._atoms
    for n, mb in bonds.items():
        seen_cls = {}
        for m, bd in mb.items():
            if seen_cls.setdefault(cls[m], int(bd)) != int(bd):
                out.add('bond-tie')

    def tied(xs):
        cs = [cls[x] for x in xs]
        return len(set(cs)) < len(cs)

    # (1) a stereo label on a centre with constitutionally equivalent substituents
    for n, a in atoms.items():
        if a.stereo is not None:
            if tied(list(bonds[n])):
                out.add('stereo-sym')
            elif len(bonds[n]) == 2:  # allene centre: look at the ends of the cumulene
                for t in bonds[n]:
                    prev, cur = n, t
                    while len(bonds[cur]) == 2 and all(int(bd) == 2 for bd in bonds[cur].values()):
                        nxt = next(x for x in bonds[cur] if x != prev)
                        prev, cur = cur, nxt
                    if tied([x for x in bonds[cur] if x != prev]):
                        out.add('stereo-sym')
    for n, mb in bonds.items():
        for m, bd in mb.items():
            if bd.stereo is not None:
                for end, other in ((n, m), (m, n)):
                    prev, cur = other, end
                    while len(bonds[cur]) == 2 and all(int(x) == 2 for x in bonds[cur].values()):
                        nxt = next(x for x in bonds[cur] if x != prev)
                        prev, cur = cur, nxt
                    if tied([x for x in bonds[cur] if x != prev]):
                        out.add('stereo-sym')
    # (2) cage-like ring system: three or more rings, an atom with three ring bonds of which two lead to
    #     symmetry-equivalent atoms
    _, adj, br = own_in_ring(mol)
    radj = {n: [m for m in ms if (n, m) not in br] for n, ms in adj.items()}
    seen = set()
    for s in radj:
        if s in seen or not radj[s]:
            continue
        comp = {s}
        stack = [s]
        while stack:
            x = stack.pop()
            for y in radj[x]:
                if y not in comp:
                    comp.add(y)
                    stack.append(y)
        seen |= comp
        ne = sum(len(radj[x]) for x in comp) // 2
        if ne - len(comp) + 1 >= 3:
            for x in comp:
                if len(radj[x]) >= 3 and tied(radj[x]):
                    out.add('cage')
                    break
    return out


def rdkit_sym_classes(smi):
    """RDKit's constitutional symmetry classes (canonical ranks without tie breaking), or None"""
    from rdkit import Chem
    rd = Chem.MolFromSmiles(smi)
    if rd is None:
        return None
    return list(Chem.CanonicalRankAtoms(rd, breakTies=False, includeChirality=False))


# =============================================================================================================
# describing one structure in other ways

def n_stereo(m):
    return sum(1 for _, a in m.atoms() if a.stereo is not None) + sum(1 for *_, bd in m.bonds() if bd.stereo is not None)


def rebuild(k, rng, offset=0):
    """the same (Kekule / non-aromatic) structure built from scratch through the public API with atoms, bonds and
    neighbours inserted in another order and other atom numbers.  returns (new molecule, mapping old->new, complete)"""
    from chython import MoleculeContainer
    from chython.periodictable import Element
    from chython.exceptions import NotChiral, IsChiral
    nums = list(k._atoms)
    new_nums = [x + offset for x in nums]
    rng.shuffle(new_nums)
    f = dict(zip(nums, new_nums))
    order = nums[:]
    rng.shuffle(order)
    new = MoleculeContainer()
    blist = [(n, m, int(bd)) for n, m, bd in k.bonds()]
    rng.shuffle(blist)
    with new:
        for n in order:
            a = k._atoms[n]
            e = Element.from_atomic_number(a.atomic_number)(a.isotope, charge=a.charge, is_radical=a.is_radical)
            new.add_atom(e, f[n])
        for n, m, o in blist:
            if rng.random() < .5:
                n, m = m, n
            new.add_bond(f[n], f[m], o)
    fixed = False
    for n, a in k._atoms.items():
        if new._atoms[f[n]].implicit_hydrogens != a.implicit_hydrogens:
            new._atoms[f[n]]._implicit_hydrogens = a.implicit_hydrogens
            fixed = True
    if fixed:
        new.flush_cache()
    # stereo labels, given for a random arrangement of the neighbours
    todo = []
    for n, a in k._atoms.items():
        if a.stereo is None:
            continue
        if n in k.stereogenic_tetrahedrons:
            env = list(k.stereogenic_tetrahedrons[n])
            rng.shuffle(env)
            todo.append((new.add_atom_stereo, f[n], tuple(f[x] for x in env), k._translate_tetrahedron_sign(n, env)))
        elif n in k.stereogenic_allenes:
            n1, m1, n2, m2 = k.stereogenic_allenes[n]
            a1 = rng.choice([x for x in (n1, n2) if x is not None])
            a2 = rng.choice([x for x in (m1, m2) if x is not None])
            todo.append((new.add_atom_stereo, f[n], (f[a1], f[a2]), k._translate_allene_sign(n, a1, a2)))
    for (n, m), (n1, m1, n2, m2) in k.stereogenic_cis_trans.items():
        i, j = k._stereo_cis_trans_centers[n]
        if k._bonds[i][j].stereo is None:
            continue
        a1 = rng.choice([x for x in (n1, n2) if x is not None])
        a2 = rng.choice([x for x in (m1, m2) if x is not None])
        todo.append((new.add_cis_trans_stereo, f[n], f[m], f[a1], f[a2], k._translate_cis_trans_sign(n, m, a1, a2)))
    rng.shuffle(todo)
    while todo:
        failed = []
        for fn, *args in todo:
            try:
                fn(*args)
            except NotChiral:
                failed.append((fn, *args))
            except IsChiral:
                pass
        if len(failed) == len(todo):
            break
        todo = failed
        new.flush_stereo_cache()
    return new, f, not todo


def normalise(m):
    """aromaticity normalised: kekule() then thiele() on a copy; None when the library cannot kekulise the input"""
    x = m.copy()
    try:
        if any(int(bd) == 4 for *_, bd in x.bonds()):
            x.kekule()
        x.thiele()
    except Exception:
        return None
    return x


def rdkit_spelling(rd, rng, kekule=False):
    """a non-canonical SMILES of the RDKit molecule: atoms renumbered at random, written in that order"""
    from rdkit import Chem
    perm = list(range(rd.GetNumAtoms()))
    rng.shuffle(perm)
    r2 = Chem.RenumberAtoms(rd, perm)
    if kekule:
        r2 = Chem.Mol(r2)
        Chem.Kekulize(r2, clearAromaticFlags=True)
    root = rng.randrange(r2.GetNumAtoms()) if len(Chem.GetMolFrags(r2)) == 1 else -1   # rooting fails on multi-fragment input
    return Chem.MolToSmiles(r2, canonical=False, rootedAtAtom=root, kekuleSmiles=kekule)


# =============================================================================================================
# search: the property on the real code

SPECIAL = [
    # charged, isotopic, radical, multi-component, organometallic, stereo of the three kinds
    'C[N+](C)(C)C.[Cl-]', '[13CH3]C([2H])O', '[CH3]', 'C[CH]C |^1:1|', '[Na+].[O-]C(=O)C', 'CC(=O)O.CC(=O)O.O', 'O.O.O',
    'Cl[Pt](Cl)(N)N', '[Fe+2].[O-]C(C)=O.[O-]C(C)=O', 'C1=CC=C[CH-]1.C1=CC=C[CH-]1.[Fe+2]', 'c1ccccc1', 'c1ccc2ccccc2c1',
    'C[C@H](N)C(=O)O', 'C[C@@H](N)C(=O)O', 'F/C=C/Cl', 'F/C=C\\Cl', 'CC=[C@]=CC', 'C[C@H](O)[C@@H](O)C', 'C[C@H](O)[C@H](O)C',
    'OC[C@H]1O[C@@H](O)[C@H](O)[C@@H](O)[C@@H]1O', 'C/C=C/C=C/C', 'C/C=C/C=C\\C', 'N[C@@H](C)C(=O)N[C@@H](CO)C(=O)O',
    'C[C@]12CC[C@H](C1)C2(C)C', 'F/C(Cl)=C(Br)/I', 'C1CC1', 'C1CCC2CCCCC2C1', 'C12C3C4C1C5C2C3C45', 'C1C2CC3CC1CC(C2)C3',
    'CC(C)(C)c1ccc(O)cc1', 'O=C1C=CC(=O)C=C1', 'C1=CC=C1', 'C1=CC=CC=CC=C1', 'C1=CC=CC=CC=CC=CC=C1', 'C1=CC=CC=CC=CC=CC=CC=C1',
    'CC1=CC=C1', 'C1=CC=CC=C1', 'C1=CC=C2C=CC=CC2=C1', 'N1=CC=NC=C1', 'C1=CC=CC=CC=C1C', 'n1ccccc1', 'c1cc[nH]c1', 'c1ccsc1', 'C#N', '[C-]#[O+]', 'N#N', '[H][H]', '[He]',
    'C', 'CC', 'C=C', 'C#C', 'CCCCCCCCCCCC', 'C1CCCCCCCCCCC1', 'OCC(O)CO', 'C(C(C)C)(C(C)C)C(C)C', 'CC(C)CC(C)C', 'B1OB(O)OB1',
    '[O-][N+](=O)c1ccccc1', 'CS(=O)(=O)O', 'OP(O)(O)=O', '[NH4+].[OH-]', 'C[Si](C)(C)C', 'C~C', 'C[Mg]Br', '[Li]CCCC',
]
# long unbranched / periodically repeating segments: the refinement needs many rounds (up to len - 1) before the middle atoms
# are told apart; every atom is constitutionally distinct or has exactly one mirror partner
LONG = [
    'C' * 35 + 'O',                                  # hexatriacontan-1-ol
    'C' * 39 + 'C(=O)O',                             # tetracontanoic acid
    'Br' + 'C' * 40 + 'Cl',
    'NCC(=O)' + 'NCC(=O)' * 12 + 'O',                # Gly13
    'C1' + 'C' * 39 + 'O1',                          # 41-membered macrocyclic ether
    'C1' + 'C' * 20 + 'N' + 'C' * 17 + 'O1',         # macrocycle with two different hetero atoms
    'CO' + 'CCO' * 15 + 'CC',                        # oligo(ethylene glycol) with different ends
    'CC(C)' + 'C' * 40 + 'N',
    'C' * 45,                                        # symmetric chain (mirror partners only)
    'OC(=O)' + 'C' * 36 + 'C(=O)O',                  # symmetric diacid
    'c1ccccc1' + 'C' * 38 + 'c1ccncc1',
    'F' + 'C=C' * 20 + 'Cl',                         # conjugated polyene, unlabelled double bonds
]
# stereo-labelled allenes: tetra-substituted (two non-hydrogen substituents on BOTH terminals), tri-substituted, explicit H
ALLENES = [
    'CC(F)=[C@]=C(Cl)Br', 'CC(F)=[C@@]=C(Cl)Br', 'BrC(Cl)=[C@]=C(F)C', 'FC(C)=[C@]=C(Br)Cl', 'NC(O)=[C@]=C(Cl)C', 'CC(N)=[C@@]=C(O)CC',
    'CC(F)=[C@]=CCl', 'CC(F)=[C@@]=CCl', 'ClC=[C@]=C(F)C', 'CC(F)=[C@]=C([H])Cl', 'CC(F)=[C@]=C(Cl)[H]', 'CC([H])=[C@]=C([H])Cl',
    'CCC(C)=[C@]=C(C)CO', 'CC(F)=[C@]=C1CCC(C)CC1', 'C1CCCCC1C(C)=[C@]=C(F)Cl', 'CC(F)=C=C=[C@]=C=C(Cl)Br', 'OC(C)=[C@]=C(N)C(=O)O',
]
# coordinate / special bonds (order 8, '~') from a metal to ONE of several ligand atoms that are equivalent in the covalent skeleton:
# only the '~' bond tells the twins apart, so it has to take part in the refinement (int_adjacency) like every other bond
COORD = [
    'CN(C)CCN(C)(C)~[Cu]', 'Cl[Pd](Cl)~P(C)(C)CCP(C)C', 'CP(C)CCP(C)(C)~[Pd](Cl)Cl', 'CC(=O~[Na+])CC(C)=O', '[Na+]~O=C(C)CC(C)=O',
    'NCCN~[Ni]', 'OCCO~[Li+]', 'CSCCSC~[Ag+]', 'c1ccnc(c1)-c1ccccn1~[Ru]', 'C1COCCOCCOCCO1~[K+]', 'NCCNCCN~[Co]', 'N(~[Zn])(C)(C)CCCN(C)C',
    '[O-]C(=O)CC(=O)[O-]~[Ca+2]', 'C1CCC(N)C(N~[Pt](Cl)Cl)C1', 'CC(C)(C)P(~[Au]Cl)C(C)(C)C', 'C(~[Fe])1=CC=CC1', 'CN(C)CCN(C)(C)~[Cu]~N(C)(C)CCCN(C)C',
    'O=C(C)C(~[Rh])C(C)=O', 'N#CC(~[Ag+])C#N', 'C[C@H](N)C(=O)O~[Cu]', 'N[C@@H](C)C(O~[Zn])=O',
]
# members of the two documented gap classes (the oracle must recognise them; whatever the code does there is not judged)
GAP_EXAMPLES = ['C[C@H]1CC[C@@H](C)CC1', 'C[C@H]1CC[C@H](C)CC1', 'O[C@H]1CC[C@@H](N)CC1', 'C[C@H]1C[C@@H](C)C1',
                'C12C3C1C1C2C31', 'C12C3C4C1C5C2C3C45', 'CC12C3C1C1C2C31']


# labelled tetrahedral centres that carry an explicit hydrogen ATOM (isotope labelled [2H] / [3H] or a plain [H] that was not made
# implicit): four LISTED neighbours and no implicit hydrogen, so none of the writer's / registry's implicit-hydrogen rules may fire
# although a hydrogen is attached.  Generated: centre element, three different substituents, kind of hydrogen, position of the hydrogen
# in the spelling and the mark are drawn independently; plus members with two centres, ring centres, a second ordinary [C@H] centre
H_CENTRE_FIXED = [
    '[2H][C@](C)(O)[C@@]([2H])(C)N', 'C[C@H](O)[C@]([2H])(F)CC', '[2H][C@]1(C)CCCO1', '[2H][C@@]1(F)CC[C@H](C)CC1', 'C[C@]([2H])(N)C(=O)O',
    '[2H][C@](C)(O)/C=C/C', '[2H][C@@](c1ccccc1)(C)N.[Cl-].[Na+]', '[3H][C@](C)(CC)[13CH3]', '[H][C@](F)(Cl)Br', '[2H][C@](C)(F)CC[C@@]([2H])(C)Cl',
]


def explicit_h_centres(rng, count):
    subs = ['F', 'Cl', 'Br', 'I', 'C', 'CC', 'O', 'N', 'C#N', 'C=O', 'OC', 'S', 'c1ccccc1', 'C(F)(F)F', '[13CH3]', 'C(=O)O', 'CCl', 'C1CC1']
    out = list(H_CENTRE_FIXED)
    while len(out) < count:
        lig = rng.sample(subs, 3)
        lig.insert(rng.randrange(4), rng.choice(['[2H]', '[2H]', '[3H]', '[H]']))
        centre = rng.choice(['C', 'C', 'C', 'C', 'Si'])
        a, b_, c, d = lig
        smi = f'{a}[{centre}{rng.choice(["@", "@@"])}]({b_})({c}){d}'
        if smi not in out:
            out.append(smi)
    return out


def rooted_spelling(m, root, rng):
    """a non-canonical SMILES written by the library's own writer whose FIRST atom is `root` (the code path of format(m, 'r'): the
    traversal is driven by arbitrary weights, here fixed ones that put `root` first, every other atom at random)"""
    w = {n: 1. + rng.random() for n in m._atoms}
    w[root] = 0.
    toks, order = m._smiles(w.__getitem__, _return_order=True, random=True)
    cx = m._format_cxsmiles(order)
    return ''.join(toks) + ('' if cx is None else ' ' + cx), order


def rdkit_stereo_count(rd):
    from rdkit import Chem
    return sum(1 for a in rd.GetAtoms() if a.GetChiralTag() != Chem.ChiralType.CHI_UNSPECIFIED) + \
        sum(1 for x in rd.GetBonds() if x.GetStereo() not in (Chem.BondStereo.STEREONONE, Chem.BondStereo.STEREOANY))


def rdkit_judge(a, c):
    """are the SMILES a and c spellings of one labelled structure for RDKit?  True / False / None (not judged).  False only when RDKit
    reads both, sees the same constitution and the same number of specified stereo elements in both, and both its canonical isomeric
    SMILES and its chirality-aware graph matching (both directions) tell the two apart"""
    from rdkit import Chem
    ra, rc = Chem.MolFromSmiles(a), Chem.MolFromSmiles(c)
    if ra is None or rc is None or ra.GetNumAtoms() != rc.GetNumAtoms():
        return None
    if Chem.MolToSmiles(ra, isomericSmiles=False) != Chem.MolToSmiles(rc, isomericSmiles=False):
        return None
    if rdkit_stereo_count(ra) != rdkit_stereo_count(rc):
        return None
    if Chem.MolToSmiles(ra) == Chem.MolToSmiles(rc):
        return True
    if ra.HasSubstructMatch(rc, useChirality=True) and rc.HasSubstructMatch(ra, useChirality=True):
        return True
    return False


BOND_TIE_KEY = 'canon-differs:bond-order-tie'
BOND_TIE_REPLAY = ("from chython import smiles; a=smiles('C1=CC=C1'); b=smiles('C=1C=CC=1'); print(str(a), str(b), a == b, hash(a) == hash(b))")


# isotope-labelled twins: ONE of two (or more) otherwise symmetry-equivalent atoms carries an isotope label; the labels run over the
# element's most common isotope and its neighbours (own table, not the library's), so that every way of encoding the isotope in the
# atom invariant (raw number, shift against a reference isotope, truthiness) has a member where the encoded value is 0 / collides
COMMON_ISOTOPE = {'H': 1, 'C': 12, 'N': 14, 'O': 16, 'F': 19, 'S': 32, 'Cl': 35, 'Br': 79, 'Na': 23, 'P': 31, 'Si': 28, 'B': 11}
TWIN_TEMPLATES = [('[{i}CH3]OC', 'C'), ('[{i}CH3]C(C)C', 'C'), ('[{i}NH2]CCN', 'N'), ('[{i}Cl]CCl', 'Cl'), ('[{i}OH]CCO', 'O'), ('[{i}SH]CCS', 'S'),
                  ('[{i}Br]CBr', 'Br'), ('[{i}F]C(F)F', 'F'), ('c1cccc[{i}cH]1', 'C'), ('[{i}Na+].[Na+].[O-]C(=O)C(=O)[O-]', 'Na'), ('[{i}H]O[H]', 'H'),
                  ('[{i}PH2]CCP', 'P'), ('C[{i}SiH2]O[SiH2]C', 'Si'), ('O[{i}B](O)OB(O)O', 'B'), ('[{i}CH3][N+](C)(C)C', 'C'), ('C1C[{i}CH2]1', 'C'),
                  ('[{i}NH2]c1ccc(N)cc1', 'N'), ('[{i}O-]C(C)=O', 'O'), ('[{i}CH3]C.CC', 'C'), ('[{i}OH2].O', 'O')]


def isotope_twins(rng, count):
    out = []
    for t, el in TWIN_TEMPLATES:
        a0 = COMMON_ISOTOPE[el]
        out.append(t.format(i=a0))                      # the most common isotope itself, always
    while len(out) < count:
        t, el = rng.choice(TWIN_TEMPLATES)
        iso = COMMON_ISOTOPE[el] + rng.choice([-1, 1, 1, 2, 3])
        x = t.format(i=iso)
        if x not in out and iso > 0:
            out.append(x)
    return out[:count]


def lattice_flake(a, b, rng, hetero=True):
    """a 2D-fused polycyclic ring system: an a x b patch of the hexagonal lattice (brick-wall construction, dangling atoms trimmed), all
    single bonds, built through the public API with random atom numbers and bond insertion order; `hetero` puts one hetero atom on a
    three-connected and one on a two-connected position plus one substituent, which makes every atom constitutionally distinct.  Any
    depth-first spelling of such a system has to keep many ring closures open at the same time (>= 10 from 3 x 4 on)"""
    from chython import MoleculeContainer
    V = {(r, c) for r in range(a + 1) for c in range(2 * b + 2)}
    E = set()
    for (r, c) in V:
        if (r, c + 1) in V:
            E.add(((r, c), (r, c + 1)))
        if (r + c) % 2 == 0 and (r + 1, c) in V:
            E.add(((r, c), (r + 1, c)))
    while True:
        deg = {v: 0 for v in V}
        for x, y in E:
            deg[x] += 1
            deg[y] += 1
        dead = {v for v, d in deg.items() if d < 2}
        if not dead:
            break
        V -= dead
        E = {(x, y) for x, y in E if x not in dead and y not in dead}
    order = sorted(V)
    rng.shuffle(order)
    num = {v: i + 1 for i, v in enumerate(order)}
    el = {v: 'C' for v in V}
    three = [v for v in order if deg[v] == 3]
    two = [v for v in order if deg[v] == 2]
    if hetero:
        el[rng.choice(three)] = rng.choice(['N', 'B', 'Si'])
        el[rng.choice(two)] = rng.choice(['O', 'S', 'N'])
    m = MoleculeContainer()
    with m:
        for v in order:
            m.add_atom(el[v], num[v])
        bl = sorted(E)
        rng.shuffle(bl)
        for x, y in bl:
            m.add_bond(num[x], num[y], 1)
        if hetero:
            v = rng.choice([t for t in two if el[t] == 'C'])
            m.add_atom(rng.choice(['F', 'Cl', 'C', 'O']), len(V) + 1)
            m.add_bond(num[v], len(V) + 1, 1)
    return m


def max_closure(s):
    """largest two-digit ring-closure number of a SMILES string (0 when none)"""
    import re
    return max([int(x) for x in re.findall(r'%(\d\d)', s)] or [0])

# genuine defect of the pinned code (reported by an independent engineer, /repo frozen): components that are NOT isomorphic but whose atoms
# are pairwise Weisfeiler-Lehman equivalent (disjoint regular rings of different size with one repeating unit: C3 + C6, 12-crown-4 +
# 18-crown-6, S6 + S8, D3 + D4 cyclosiloxanes) get the same Morgan classes - `_morgan` has no component-level information, Element.__hash__
# has in_ring but no ring size - and `_smiles` then picks the first component by set order: the ORDER OF THE COMPONENTS in the string
# follows atom numbers / input order
WL_TIE_KEY = 'canon-differs:wl-equivalent-components'
WL_TIE_REPLAY = ("from chython import smiles; a=smiles('C1CC1.C1CCCCC1'); b=smiles('C1CCCCC1.C1CC1'); print(str(a), str(b), a == b, hash(a) == hash(b))")
# pairs / triples of regular ring components of different size with one repeating unit, also next to an ordinary third component
WL_COMPONENTS = [
    'C1CC1.C1CCCCC1', 'C1CCC1.C1CCCC1', 'C1COCCOCCOCCO1.C1COCCOCCOCCOCCOCCO1', 'S1SSSSS1.S1SSSSSSS1',
    'C[Si]1(C)O[Si](C)(C)O[Si](C)(C)O1.C[Si]1(C)O[Si](C)(C)O[Si](C)(C)O[Si](C)(C)O1', 'C1CNCCNCCN1.C1CNCCNCCNCCN1',
    'C1CC1.C1CCC1.C1CCCCC1', 'C1CC1.C1CCCCC1.CCO', 'C1CCCC1.C1CCCCCCC1.[Na+].[Cl-]', 'C1COCCO1.C1COCCOCCO1.c1ccccc1', 'FC1(F)C(F)(F)C1(F)F.FC1(F)C(F)(F)C(F)(F)C1(F)F',
    'C1CCCCC1.C1CC1', 'O1CCOCCOCCOCCOCC1.O1CCOCCOCC1',
]


def mol_components(mol):
    """connected components as sets of atom numbers (own traversal of _bonds)"""
    left = set(mol._atoms)
    out = []
    while left:
        s = left.pop()
        comp = {s}
        stack = [s]
        while stack:
            x = stack.pop()
            for y in mol._bonds[x]:
                if y not in comp:
                    comp.add(y)
                    stack.append(y)
        left -= comp
        out.append(comp)
    return out


def wl_equivalent_components(mol):
    """the mechanism, recognised on the molecule alone and without the library's Morgan code: two connected components with a DIFFERENT
    number of atoms (hence not isomorphic) such that the own exact colour refinement (1-WL on element, isotope, charge, radical,
    implicit H, ring membership and bond orders) gives the two components the same SET of classes - every atom of one has a
    WL-equivalent atom in the other, as for disjoint rings built from one repeating unit"""
    comps = mol_components(mol)
    if len(comps) < 2:
        return False
    cls = own_classes(mol)
    sig = [(len(c), frozenset(cls[n] for n in c)) for c in comps]
    return any(a[1] == b_[1] and a[0] != b_[0] for a, b_ in itertools.combinations(sig, 2))


def same_components(s0, s1):
    """two SMILES strings that differ at most in the order of their dot-separated components (CXSMILES suffix: same length only)"""
    a, b_ = s0.split(' ', 1), s1.split(' ', 1)
    return sorted(a[0].split('.')) == sorted(b_[0].split('.')) and len(a) == len(b_)

# genuine defect of the pinned code (found by fin-C15, C01's territory): CPython has hash(-1) == hash(-2) == -2 and Element.__hash__
# puts the raw charge into the hashed tuple, so two atoms that differ ONLY in charge -1 / -2 get one Morgan invariant
CHARGE_TIE_KEY = 'canon-differs:hash-collision-charge--1--2'
CHARGE_TIE_REPLAY = ("from chython import smiles; a=smiles('[Cl-2].[Cl-]'); b=smiles('[Cl-].[Cl-2]'); "
                     "print(str(a), str(b), a == b, [hash(x) for _, x in a.atoms()])")
# two otherwise equal atoms / ligands / metals with charges -1 and -2 (also with an isotope, in one component, three atoms)
CHARGE_TIE = ['[Cl-2].[Cl-]', '[Cl-].[Cl-2]', '[Fe-2].[Fe-]', '[35Cl-].[35Cl-2]', '[I-].[I-2]', 'C[Fe-]C.C[Fe-2]C', 'Cl[Cu-]Cl.Cl[Cu-2]Cl',
              'Cl[Pt-2](Cl)[Pt-](Cl)Cl', '[Fe-]C#N.[Fe-2]C#N', '[Zn-2]1CC[Zn-]CC1', '[Cl-2].[Cl-].[Cl-]']


def charge_hash_collision(mol):
    """the mechanism, recognised on the molecule alone: two atoms whose Element.__hash__ values are equal although they differ in
    charge, the charges being -1 and -2, everything else that is hashed being equal"""
    seen = {}
    for n, a in mol.atoms():
        sig = (a.isotope or 0, a.atomic_number, bool(a.is_radical), a.implicit_hydrogens or 0, bool(a.in_ring))
        seen.setdefault((hash(a), sig), set()).add(a.charge)
    return any({-1, -2} <= v for v in seen.values())


class _CkRoute:
    """the check context as the Searcher sees it: a string / partition difference on a molecule that carries the -1 / -2 charge
    collision is reported under the one stable key of that mechanism (known finding); everything else passes through"""
    ROUTED = ('canon-differs:', 'nostereo-differs:', 'atoms-order-partition:', 'atoms-order-renumber:')

    def __init__(self, ck):
        self._ck = ck
        self.charge_tie = False

    def __getattr__(self, name):
        return getattr(self._ck, name)

    def counterexample(self, key, what, input, observed, expected, oracle, replay_py=None):
        if self.charge_tie and key.startswith(self.ROUTED):
            self._ck.count('search:charge--1--2-collision-finding')
            return self._ck.counterexample(CHARGE_TIE_KEY, what + ' [two atoms differ only in charge -1 / -2 and hash(-1) == hash(-2)]',
                                           input, observed, expected, oracle, replay_py=replay_py or CHARGE_TIE_REPLAY)
        return self._ck.counterexample(key, what, input, observed, expected, oracle, replay_py=replay_py)


class Searcher:
    def __init__(self, ck):
        self.ck = _CkRoute(ck)
        self.gap_hits = 0

    def compare(self, kind, smi, base, other, detail, replay_py=None):
        """two descriptions of one structure: canonical string, ==, hash"""
        ck = self.ck
        s0, s1 = str(base), str(other)
        eq = (base == other)
        heq = (hash(base) == hash(other))
        ck.count(f'search:{kind}')
        if s0 == s1 and eq and heq:
            return True
        if (s0 == s1) != eq or (eq and not heq):
            ck.counterexample(f'eq-hash-incoherent:{kind}:{smi}', '== / hash disagree with the canonical strings',
                              {'smiles': smi, 'how': kind, 'detail': detail}, {'str': [s0, s1], 'eq': eq, 'hash_eq': heq},
                              'eq <-> equal strings, equal -> equal hash', 'definition of __eq__/__hash__', replay_py=replay_py)
            return False
        if same_components(s0, s1) and wl_equivalent_components(base) and wl_equivalent_components(other) and not ck.charge_tie:
            # known finding: only the ORDER of the components differs and the molecule has WL-equivalent non-isomorphic components
            ck.count('search:wl-equivalent-components-finding')
            ck.counterexample(WL_TIE_KEY, 'two descriptions of one structure have canonical SMILES that differ in the order of their components: '
                              'two non-isomorphic components have pairwise Weisfeiler-Lehman equivalent atoms, Morgan gives them the same classes '
                              'and the writer picks the first component by set order', {'smiles': smi, 'how': kind, 'detail': detail}, [s0, s1],
                              'equal strings, ==, equal hash', 'structure identity by construction; own colour refinement as classifier',
                              replay_py=WL_TIE_REPLAY)
            return False
        gaps = gap_classes(base) | gap_classes(other)
        if 'bond-tie' in gaps:
            # third gap class found by this check and fixed in /repo by 2e3e6bb (one stable key for the class; minimal member
            # C1=CC=C1): a VIOLATION if it ever returns
            ck.count('search:bond-order-tie-finding')
            ck.counterexample(BOND_TIE_KEY, 'two descriptions of one structure have different canonical SMILES: an atom has two '
                              'symmetry-equivalent neighbours attached by bonds of different order and the writer breaks the tie by set order',
                              {'smiles': smi, 'how': kind, 'detail': detail}, [s0, s1], 'equal strings, ==, equal hash',
                              'structure identity by construction', replay_py=replay_py or BOND_TIE_REPLAY)
            return False
        if gaps:
            self.gap_hits += 1
            ck.count('search:gap-skipped:' + '+'.join(sorted(gaps)))
            # the tie-independent part still has to hold: constitution without stereo marks (unless a cage)
            if 'cage' not in gaps and format(base, '!s') != format(other, '!s'):
                ck.counterexample(f'nostereo-differs:{kind}:{smi}', 'canonical string without stereo marks differs between two '
                                  'descriptions of one structure', {'smiles': smi, 'how': kind, 'detail': detail},
                                  [format(base, '!s'), format(other, '!s')], 'equal', 'structure identity by construction',
                                  replay_py=replay_py)
                return False
            return True
        ck.counterexample(f'canon-differs:{kind}:{smi}', 'two descriptions of one structure have different canonical SMILES',
                          {'smiles': smi, 'how': kind, 'detail': detail}, [s0, s1], 'equal strings, ==, equal hash',
                          'structure identity by construction (renumbering / rebuild / re-spelling)', replay_py=replay_py)
        return False

    def morgan_oracle(self, smi, m, rng):
        """atoms_order on the real code: dense ranks, refines the atom invariants, coarser than the stable colour
        refinement, equivariant under renumbering"""
        ck = self.ck
        ao = m.atoms_order
        if not len(m):
            return
        vals = sorted(set(ao.values()))
        ok_dense = vals == list(range(1, len(vals) + 1)) and set(ao) == set(m._atoms)
        ring = {n for n, a in m.atoms() if a.in_ring}
        inv = {n: atom_colour(a, n in ring) for n, a in m.atoms()}
        by_rank = {}
        for n, r in ao.items():
            by_rank.setdefault(r, set()).add(inv[n])
        ok_refines = all(len(v) == 1 for v in by_rank.values())
        own_ring = own_in_ring(m)[0]
        cls = own_classes(m)
        by_cls = {}
        for n, c in cls.items():
            by_cls.setdefault(c, set()).add(ao[n])
        ok_coarser = own_ring != ring or all(len(v) == 1 for v in by_cls.values())
        ck.count('search:morgan-oracle')
        if len(set(cls.values())) == len(vals):
            ck.count('search:morgan-partition=stable-refinement')
        else:
            ck.count('search:morgan-partition-coarser-than-stable-refinement')
        if not (ok_dense and ok_refines and ok_coarser):
            ck.counterexample(f'atoms-order-partition:{smi}', 'atoms_order is not a dense ranking compatible with the atom invariants / '
                              'separates atoms that an exact colour refinement cannot separate',
                              {'smiles': smi}, {'atoms_order': dict(ao), 'dense': ok_dense, 'refines_invariants': ok_refines,
                                                'coarser_than_WL': ok_coarser}, 'all true', 'own exact colour refinement',
                              replay_py=f"from chython import smiles; m=smiles({smi!r}); print(m.atoms_order)")
        m2 = corpus.renumber(m, rng)
        f = dict(zip(m._atoms, m2._atoms))
        ao2 = m2.atoms_order
        if any(ao2[f[n]] != r for n, r in ao.items()):
            ck.counterexample(f'atoms-order-renumber:{smi}', 'atoms_order changes under renumbering',
                              {'smiles': smi, 'mapping': f}, dict(ao2), {f[n]: r for n, r in ao.items()}, 'renumbering by remap()',
                              replay_py=f"from chython import smiles; m=smiles({smi!r}); print(m.atoms_order); m.remap({f!r}); print(m.atoms_order)")

    def traversal_oracle(self, smi, m):
        """with discrete (injective) weights the written atom order must be the depth-first preorder that starts at the
        smallest weight and visits neighbours by increasing weight, component after component (own 10-line reference)"""
        ck = self.ck
        for stereo, w in ((True, m._chiral_morgan), (False, m.atoms_order)):
            if len(set(w.values())) != len(w) or not len(m):
                ck.count('search:traversal-oracle:tied-weights-skipped')
                continue
            if stereo:
                got = list(m.smiles_atoms_order)
            else:
                got = list(m.__format__('!s', _return_order=True)[1])
            left = set(m._atoms)
            exp = []
            while left:
                start = min(left, key=w.get)
                stack = [start]
                seen = set()
                # recursive preorder, children by increasing weight
                def visit(n):
                    seen.add(n)
                    exp.append(n)
                    for c in sorted(m._bonds[n], key=w.get):
                        if c not in seen:
                            visit(c)
                import sys
                sys.setrecursionlimit(max(sys.getrecursionlimit(), 10000))
                visit(start)
                left -= seen
            ck.count('search:traversal-oracle')
            if got != exp:
                ck.counterexample(f'traversal-order:{smi}', 'with discrete weights the written atom order is not the depth-first preorder by '
                                  'increasing weight', {'smiles': smi, 'stereo_weights': stereo, 'weights': dict(w)}, got, exp,
                                  'own reference DFS', replay_py=f"from chython import smiles; m=smiles({smi!r}); print(m.smiles_atoms_order, m._chiral_morgan)")

    def written_oracle(self, smi, m, rng, n_root=3):
        """(1) smiles(str(m)) is m; (2) spellings of the library's writer that START at a labelled stereo atom (each of the first
        n_root centres, atoms with and without implicit / explicit hydrogen alike; one more starts at an atom next to a centre) read
        back as m; (3) RDKit judges str(m) and every such spelling against the input string"""
        from chython import smiles
        ck = self.ck
        gaps = gap_classes(m)
        centres = [n for n, a in m.atoms() if a.stereo is not None]
        written = [('canonical', str(m), None)]
        if len(m) <= 60:
            roots = centres[:n_root]
            if centres:
                nb = [x for x in m._bonds[centres[-1]]]
                if nb:
                    roots.append(rng.choice(nb))
            for r in roots:
                try:
                    sp, order = rooted_spelling(m, r, rng)
                except Exception as e:
                    ck.counterexample(f'rooted-writer-raises:{smi}', f'the writer raises {type(e).__name__} when the traversal starts at atom {r}',
                                      {'smiles': smi, 'root': r}, repr(e), 'a string', 'writer is total on molecules it can write canonically')
                    continue
                if order[0] != r:
                    ck.unchecked('rooted spellings', f'{smi}: the traversal did not start at the atom of smallest weight ({r}), got {order[0]}')
                    continue
                a = m._atoms[r]
                ck.count('search:rooted-spelling:' + ('not-a-centre' if a.stereo is None else
                                                      'centre-implicit-H' if a.implicit_hydrogens else
                                                      'centre-explicit-H' if any(m._atoms[x].atomic_number == 1 for x in m._bonds[r]) else
                                                      'centre-allene' if len(m._bonds[r]) == 2 else 'centre-4-heavy'))
                written.append(('rooted', sp, r))
        judged = not gaps and bool(n_stereo(m))
        for how, sp, root in written:
            try:
                back = smiles(sp)
            except Exception as e:
                ck.counterexample(f'written-unreadable:{smi}', 'a SMILES written by the library is not readable by the library',
                                  {'smiles': smi, 'written': sp, 'how': how}, repr(e), 'a molecule', 'reader')
                continue
            self.compare('reread-' + how, smi, m, back, {'written': sp, 'first_atom': root},
                         f"from chython import smiles; print(str(smiles({smi!r}))); print(str(smiles({sp!r})))")
            if judged:
                v = rdkit_judge(smi, sp)
                ck.count(f'search:rdkit-judge-written:{how}:' + {None: 'not-judged', True: 'same', False: 'DIFFERENT'}[v])
                if v is False:
                    ck.counterexample(f'written-other-structure:{how}:{smi}', 'the library writes a SMILES that is a spelling of ANOTHER stereoisomer '
                                      'of the molecule it was written for (judged by RDKit on the input string and the written string)',
                                      {'smiles': smi, 'how': how, 'first_atom': root}, sp, 'a spelling of the input structure',
                                      'RDKit: equal constitution, equal number of stereo labels, canonical isomeric SMILES and chirality-aware '
                                      'graph matching both tell the two apart',
                                      replay_py=f"from chython import smiles; from rdkit import Chem; m=smiles({smi!r}); print(str(m)); "
                                                f"print(Chem.MolToSmiles(Chem.MolFromSmiles({smi!r})), Chem.MolToSmiles(Chem.MolFromSmiles({sp!r})))")

    def one(self, smi, rng, n_renum=2, n_spell=2, n_rdkit=2, heavy=True, n_root=3):
        from chython import smiles
        from rdkit import Chem
        ck = self.ck
        try:
            m = smiles(smi)
        except Exception:
            ck.count('search:unparsable')
            return
        if m is None or not hasattr(m, '_atoms'):
            return
        ck.charge_tie = charge_hash_collision(m)
        ns = n_stereo(m)
        ck.case(('search', smi), nontrivial=len(m) > 1)
        ck.count(f'search:mol:stereo_elements={min(ns, 4)}')
        ck.count(f'search:mol:components={min(m.connected_components_count, 3)}')
        self.morgan_oracle(smi, m, rng)
        self.traversal_oracle(smi, m)
        # ---- (a) renumbering of the molecule as read
        for _ in range(n_renum):
            m2 = corpus.renumber(m, rng)
            f = dict(zip(m._atoms, m2._atoms))
            self.compare('renumber', smi, m, m2, {'mapping': f},
                         f"from chython import smiles; m=smiles({smi!r}); a=str(m); m.remap({f!r}); print(a); print(str(m))")
        if not heavy:
            return
        # ---- (a') what the library WRITES for the molecule is a spelling of the structure that was read: the canonical string is a
        #      fixed point of reading, every labelled centre is written once as the FIRST atom of the string, and RDKit (which never
        #      sees a chython object) must find the input and every written string to be one labelled structure
        self.written_oracle(smi, m, rng, n_root)
        # ---- (b) rebuilt from scratch in another insertion order (Kekule form, then aromatised again)
        k = m.copy()
        arom = any(int(bd) == 4 for *_, bd in k.bonds())
        kek_ok = True
        if arom:
            try:
                k.kekule()
            except Exception:
                kek_ok = False
                ck.count('search:kekule-failed')
        if kek_ok and not any(int(bd) == 4 for *_, bd in k.bonds()):
            new, f, complete = rebuild(k, rng, offset=rng.choice([0, 0, 7, 1000]))
            if not complete or n_stereo(new) != n_stereo(k):
                ck.count('search:rebuild-stereo-incomplete')
                if format(new, '!s') != format(k, '!s') and 'cage' not in gap_classes(k):
                    ck.counterexample(f'canon-differs:rebuild-nostereo:{smi}', 'rebuilt structure (other insertion order) has another '
                                      'canonical string (stereo ignored)', {'smiles': smi, 'mapping': f}, [format(k, '!s'), format(new, '!s')],
                                      'equal', 'rebuild from scratch through add_atom/add_bond')
            else:
                det = {'mapping': f, 'atoms_inserted': list(new._atoms)}
                if not arom:
                    self.compare('rebuild', smi, k, new, det)
                else:
                    # the Kekule forms themselves (tied ring neighbours across different bond orders: fixed by 2e3e6bb), then thiele()
                    self.compare('rebuild-kekule', smi, k, new, det)
                    t0, t1 = k.copy(), new.copy()
                    t0.thiele()
                    t1.thiele()
                    self.compare('rebuild-thiele', smi, t0, t1, det)
        # ---- (c) chython's own random-order writer (aromatic bonds are written as they are: nothing to normalise)
        for _ in range(n_spell):
            random.seed(rng.randrange(1 << 30))
            sp = format(m, 'r')
            try:
                m3 = smiles(sp)
            except Exception as e:
                ck.counterexample(f'respell-unreadable:{smi}', 'random-order SMILES written by the library is not readable',
                                  {'smiles': smi, 'respelled': sp}, repr(e), 'a molecule', 'reader')
                continue
            self.compare('respell-chython', smi, m, m3, {'respelled': sp},
                         f"from chython import smiles; print(str(smiles({smi!r}))); print(str(smiles({sp!r})))")
        # ---- (d) RDKit's spellings (aromatic and Kekule); aromaticity normalised by kekule() + thiele() on both sides
        #      (canonicalize() is not used: its functional-group rules depend on the Kekule structure chosen, C14's business)
        rd = Chem.MolFromSmiles(smi)
        if rd is None:
            ck.count('search:rdkit-cannot-read')
            return
        mc = normalise(m)
        if mc is None:
            ck.count('search:normalise-failed')
            return
        for i in range(n_rdkit):
            try:
                sp = rdkit_spelling(rd, rng, kekule=bool(i % 2))
            except Exception:
                ck.count('search:rdkit-cannot-write')
                continue
            try:
                m4 = normalise(smiles(sp))
            except Exception:
                m4 = None
            if m4 is None:
                ck.count('search:rdkit-spelling-not-read')
                continue
            gaps = (gap_classes(mc) | gap_classes(m4)) & {'stereo-sym', 'cage'}
            if n_stereo(m4) != n_stereo(mc):
                # the two toolkits disagree about which centres are stereogenic: stereo labels are C12's business
                ck.count('search:rdkit-stereo-count-differs')
                if format(m4, '!s') != format(mc, '!s') and 'cage' not in gaps:
                    self.rdkit_diff(smi, sp, mc, m4, '!s')
                continue
            if str(m4) != str(mc) and not gaps and not (same_components(str(m4), str(mc)) and wl_equivalent_components(mc)):
                # is it the same molecule for RDKit too?  (aromaticity model differences are not C01's)
                self.rdkit_diff(smi, sp, mc, m4, '')
            else:
                self.compare('respell-rdkit', smi, mc, m4, {'respelled': sp},
                             f"from chython import smiles; a=smiles({smi!r}); b=smiles({sp!r}); [(x.kekule(), x.thiele()) for x in (a, b)]; print(str(a)); print(str(b))")

    def rdkit_diff(self, smi, sp, mc, m4, spec):
        """two canonicalized readings differ: alarm only when the two chython molecules are the same labelled graph, judged
        by RDKit on their Kekule-independent descriptions"""
        from rdkit import Chem
        ck = self.ck
        a, c = format(mc, spec), format(m4, spec)
        ra, rc = Chem.MolFromSmiles(a), Chem.MolFromSmiles(c)
        if ra is None or rc is None:
            ck.count('search:rdkit-diff-unjudged')
            return
        iso = spec == ''
        if Chem.MolToSmiles(ra, isomericSmiles=iso) == Chem.MolToSmiles(rc, isomericSmiles=iso) and \
                sorted(atom_colour(x, False) for _, x in mc.atoms()) == sorted(atom_colour(x, False) for _, x in m4.atoms()) and \
                sorted(int(bd) for *_, bd in mc.bonds()) == sorted(int(bd) for *_, bd in m4.bonds()):
            ck.counterexample(f'canon-differs:respell-rdkit{spec}:{smi}', 'a spelling written by RDKit reads back (after kekule+thiele) as '
                              'the same labelled graph but with another canonical SMILES', {'smiles': smi, 'respelled': sp}, [a, c],
                              'equal', 'RDKit canonical SMILES of both strings + equal atom/bond inventories',
                              replay_py=f"from chython import smiles; a=smiles({smi!r}); b=smiles({sp!r}); [(x.kekule(), x.thiele()) for x in (a, b)]; print(format(a,{spec!r})); print(format(b,{spec!r}))")
        else:
            ck.count('search:rdkit-normalisation-differs')


def small_molecules(rng, count):
    """random small decorated molecules built through the API (valence errors allowed), as SMILES of the library"""
    from chython import MoleculeContainer
    out = []
    elems = ['C', 'C', 'C', 'N', 'O', 'S', 'F', 'Cl', 'P', 'B', 'Si', 'Fe', 'H']
    while len(out) < count:
        n = rng.randint(1, 9)
        m = MoleculeContainer()
        try:
            with m:
                for i in range(1, n + 1):
                    m.add_atom(rng.choice(elems), i)
                    ch = rng.choice([0] * 8 + [1, -1])
                    if ch:
                        m._atoms[i].charge = ch
                    if rng.random() < .05:
                        m._atoms[i].is_radical = True
                for i in range(2, n + 1):
                    if rng.random() < .9:
                        m.add_bond(i, rng.randint(1, i - 1), rng.choice([1, 1, 1, 2, 3, 8] if rng.random() < .3 else [1]))
                for _ in range(rng.choice([0, 0, 1, 1, 2, 3])):
                    a, c = rng.randint(1, n), rng.randint(1, n)
                    if a != c and c not in m._bonds[a]:
                        m.add_bond(a, c, 1)
        except Exception:
            continue
        out.append(m)
    return out


def search_allenes(ck):
    """spellings aC(b)=[C@]=C(c)d of an allene denote the same configuration exactly when their tetrahedral analogues
    a[C@](b)(c)d do (OpenSMILES extended tetrahedral rule); RDKit judges the analogues and never sees an allene.  All spellings of
    one configuration must give ONE canonical string, equal and hash-equal molecules; the two configurations different strings;
    the library's random-order output must read back as the same molecule (oracle after harness/checks/C12.py:search_allenes)"""
    from chython import smiles
    from rdkit import Chem
    for subs in (('C', 'F', 'Cl', 'Br'), ('C', 'F', 'C', 'Cl'), ('N', 'O', 'Cl', 'C'), ('CC', 'C', 'O', 'N'), ('C', 'F', '[H]', 'Cl'),
                 ('C', '[H]', '[H]', 'Cl')):
        groups = {}
        left, right = subs[:2], subs[2:]
        for lft in itertools.permutations(left):
            for rgt in itertools.permutations(right):
                for mk in ('@', '@@'):
                    for flip in (False, True):      # written from either end
                        a, bb, c, d = (lft + rgt) if not flip else (rgt + lft)
                        if a == '[H]':
                            continue
                        al = f'{a}C({bb})=[C{mk}]=C({c}){d}'
                        rd = Chem.MolFromSmiles(f'{a}[C{mk}]({bb})({c}){d}')
                        if rd is not None:
                            groups.setdefault(Chem.MolToSmiles(rd), []).append(al)
        if len(groups) != 2:
            continue    # the analogue is not a stereocentre for RDKit: nothing to judge
        canon = {}
        for key, spellings in groups.items():
            seen = {}
            first = None
            for al in spellings:
                try:
                    m = smiles(al)
                except Exception as e:
                    ck.counterexample(f'allene-raises:{al}', f'reading a stereo allene raises {type(e).__name__}', {'smiles': al}, repr(e),
                                      'a molecule', 'OpenSMILES')
                    continue
                ck.case(('search-allene', al))
                ck.count('search:allene-spellings')
                seen.setdefault(str(m), []).append(al)
                if first is None:
                    first = (al, m)
                elif (m == first[1]) != (str(m) == str(first[1])) or (m == first[1] and hash(m) != hash(first[1])):
                    ck.counterexample(f'eq-hash-incoherent:allene:{al}', '== / hash disagree with the canonical strings', {'a': first[0], 'b': al},
                                      [str(first[1]), str(m)], 'coherent', 'definition of __eq__/__hash__')
                random.seed(len(al) * 7919 + len(seen))
                back = smiles(format(m, 'r'))
                if str(back) != str(m) or back != m:
                    ck.counterexample(f'allene-respell:{al}', 'random-order SMILES of a stereo allene reads back as a different molecule',
                                      {'smiles': al}, str(back), str(m), 'the library reading its own random-order output',
                                      replay_py=f"from chython import smiles; m=smiles({al!r}); print(m, smiles(format(m,'r')))")
            if len(seen) > 1:
                ex = [v[0] for v in seen.values()][:2]
                ck.counterexample(f'allene-spellings:{ex[0]}', 'equivalent spellings of one allene configuration give different canonical '
                                  'strings (equivalence judged by RDKit on the tetrahedral analogues)', {'spellings': ex}, sorted(seen),
                                  'one string', 'OpenSMILES extended tetrahedral rule + RDKit',
                                  replay_py=f"from chython import smiles; print(smiles({ex[0]!r}), smiles({ex[1]!r}))")
            canon[key] = set(seen)
        ks = list(canon)
        if len(ks) == 2 and canon[ks[0]] & canon[ks[1]]:
            ck.counterexample(f'allene-enantiomers:{"/".join(subs)}', 'the two configurations of an allene share a canonical string',
                              {'substituents': subs}, sorted(canon[ks[0]] & canon[ks[1]]), 'different strings',
                              'OpenSMILES extended tetrahedral rule + RDKit')


def search(ck, seeds=None):
    rng = random.Random(f'{ck.seed}:c01-search')
    S = Searcher(ck)
    quick = ck.tier == 'quick'
    n_corp = 150 if quick else 1500
    pool = corpus.sample(corpus.lipo(), n_corp, ck.seed, 'c01')
    st = corpus.sample(corpus.stereo_smiles(), 60 if quick else 600, ck.seed, 'c01s')
    for smi in (seeds or []) + SPECIAL + GAP_EXAMPLES + st + pool:
        S.one(smi, rng)
    for smi in LONG:
        S.one(smi, rng, n_renum=4, n_spell=3, n_rdkit=4)
    for smi in COORD:
        S.one(smi, rng, n_renum=6, n_spell=6, n_rdkit=2)
    # several equal stereo elements: the stereo refinement decides the string (renumberings and spellings at volume)
    for smi in STEREO_TIES:
        S.one(smi, rng, n_renum=8, n_spell=6, n_rdkit=2)
    # charges -1 / -2 on otherwise equal atoms: reached deterministically (the reversed numbering of the molecule as read)
    from chython import smiles as _sm
    for smi in CHARGE_TIE:
        m = _sm(smi)
        S.ck.charge_tie = charge_hash_collision(m)
        if not S.ck.charge_tie:
            ck.unchecked('charge -1 / -2 family', f'{smi}: the two atoms no longer share hash(atom); re-classify the known finding')
        nums = list(m._atoms)
        f = dict(zip(nums, reversed(nums)))
        m2 = m.copy()
        m2.remap(f)
        ck.case(('search-charge-tie', smi), nontrivial=True)
        S.compare('renumber-reversed', smi, m, m2, {'mapping': f},
                  f"from chython import smiles; m=smiles({smi!r}); a=str(m); m.remap({f!r}); print(a); print(str(m))")
        S.one(smi, rng, n_renum=3, n_spell=2, n_rdkit=1)
    for smi in ALLENES:
        S.one(smi, rng, n_renum=4, n_spell=12, n_rdkit=1)
    # WL-equivalent non-isomorphic components (known finding): as written, with the components swapped, renumbered, re-spelled
    for smi in WL_COMPONENTS:
        m = _sm(smi)
        if not wl_equivalent_components(m):
            ck.unchecked('WL-equivalent components family', f'{smi}: not recognised by the structural classifier')
        S.ck.charge_tie = False
        parts = smi.split('.')
        for sw in ('.'.join(reversed(parts)), '.'.join(parts[1:] + parts[:1])):
            ck.case(('search-wl-components', smi, sw), nontrivial=True)
            S.compare('components-swapped', smi, m, _sm(sw), {'swapped': sw},
                      f"from chython import smiles; print(str(smiles({smi!r}))); print(str(smiles({sw!r})))")
        S.one(smi, rng, n_renum=6, n_spell=3, n_rdkit=2)
    # isotope-labelled twins (the common isotope of the element included): the label must separate the twins in every description
    for smi in isotope_twins(random.Random(f'{ck.seed}:c01-twins'), 36 if quick else 200):
        try:
            m = _sm(smi)
        except Exception:
            ck.count('search:unparsable')
            continue
        S.ck.charge_tie = charge_hash_collision(m)
        nums = list(m._atoms)
        f = dict(zip(nums, reversed(nums)))
        m2 = m.copy()
        m2.remap(f)
        S.compare('renumber-reversed', smi, m, m2, {'mapping': f},
                  f"from chython import smiles; m=smiles({smi!r}); a=str(m); m.remap({f!r}); print(a); print(str(m))")
        S.one(smi, rng, n_renum=3, n_spell=2, n_rdkit=1)
    # 2D-fused polycyclic lattices (generated through the API): many ring closures open at the same time, two-digit closure numbers
    big = 0
    frng = random.Random(f'{ck.seed}:c01-flakes')
    for a, b_ in ([(3, 3), (3, 4), (4, 4), (4, 5)] if quick else [(3, 3), (3, 4), (4, 4), (4, 5), (5, 5), (3, 6), (4, 4), (4, 6), (5, 6), (6, 6)]):
        for hetero in (True, False):
            m = lattice_flake(a, b_, frng, hetero)
            label = f'hexagonal lattice {a}x{b_}' + (' with hetero atoms ' if hetero else ' ') + format(m, 'h')
            S.ck.charge_tie = False
            ck.case(('search-flake', a, b_, hetero, tuple(m._atoms)), nontrivial=True)
            detail = {'atoms': {n: at.atomic_symbol for n, at in m.atoms()}, 'bonds': [(n, k, int(bd)) for n, k, bd in m.bonds()]}
            canon = str(m)
            top = max_closure(canon)
            S.written_oracle(label, m, rng, n_root=0)
            for _ in range(2):
                m2 = corpus.renumber(m, rng)
                S.compare('renumber-generated', label, m, m2, dict(detail, mapping=dict(zip(m._atoms, m2._atoms))))
            for r in rng.sample(list(m._atoms), 3):          # spellings of the library's writer from three start atoms
                sp, _ = rooted_spelling(m, r, rng)
                top = max(top, max_closure(sp))
                try:
                    back = _sm(sp)
                except Exception as e:
                    ck.counterexample(f'written-unreadable:{label[:60]}', 'a SMILES written by the library is not readable by the library',
                                      dict(detail, written=sp), repr(e), 'a molecule', 'reader')
                    continue
                S.compare('reread-rooted', label, m, back, dict(detail, written=sp))
            ck.count(f'search:flake:max-closure-number>={min(top // 5 * 5, 15)}')
            big += top >= 10
    if not big:
        ck.unchecked('2D-fused lattice family', 'no member needed a ring-closure number >= 10')
    for smi in ('C1CC1.C1CC1', 'C1CCCCC1.CCCCCC', 'C1CC1.C1CC1C', 'CCO.CCCO', 'c1ccccc1.C1CCCCC1'):
        if wl_equivalent_components(_sm(smi)):
            ck.unchecked('WL-equivalent components classifier', f'{smi} is wrongly classified (isomorphic or WL-distinguishable components)')
    # labelled centres with an explicit hydrogen atom (generated family): every centre written first, several random spellings
    for smi in explicit_h_centres(random.Random(f'{ck.seed}:c01-hcentres'), 34 if quick else 300):
        S.one(smi, rng, n_renum=2, n_spell=4, n_rdkit=2, n_root=4)
    search_allenes(ck)
    # the oracle must recognise the documented gap members, and must not call ordinary molecules gaps
    from chython import smiles
    for smi in GAP_EXAMPLES:
        if not gap_classes(smiles(smi)):
            ck.unchecked('symmetry oracle', f'documented gap member {smi} not recognised by the independent oracle')
    for smi in ('C[C@H](N)C(=O)O', 'C[C@H]1CCCC[C@H]1C', 'c1ccc2cc3ccccc3cc2c1', 'F/C=C/Cl', 'C1CC2CCC1CC2'):
        if gap_classes(smiles(smi)):
            ck.unchecked('symmetry oracle', f'{smi} is wrongly classified as a documented gap member')
    # cross-check of the oracle's classes with RDKit's symmetry classes (count only)
    for smi in pool[:60]:
        try:
            m = smiles(smi)
        except Exception:
            continue
        rk = rdkit_sym_classes(smi)
        if rk is None or len(rk) != len(m):
            continue
        mine = own_classes(m, with_ring=False)
        ck.count('oracle:classes==rdkit' if len(set(mine.values())) == len(set(rk)) else 'oracle:classes!=rdkit')
    # == and hash between DIFFERENT structures follow the strings too (neighbouring pool members, stereo-stripped copies)
    prev = None
    for smi in SPECIAL + st[:40]:
        try:
            m = smiles(smi)
        except Exception:
            continue
        others = [(prev[0], prev[1])] if prev else []
        if n_stereo(m):
            c = m.copy()
            c.clean_stereo()
            others.append((smi + ' without stereo', c))
        for osmi, o in others:
            ck.count('search:eq-coherence-pair')
            same = str(m) == str(o)
            if (m == o) != same or (o == m) != same or (same and hash(m) != hash(o)) or (m != o) == same:
                ck.counterexample(f'eq-hash-incoherent:pair:{smi}', '== / != / hash of two molecules disagree with their canonical strings',
                                  {'a': smi, 'b': osmi}, {'str': [str(m), str(o)], 'eq': m == o, 'hash_eq': hash(m) == hash(o)},
                                  'eq <-> equal strings, equal -> equal hash', 'definition of __eq__/__hash__',
                                  replay_py=f"from chython import smiles; a=smiles({smi!r}); print(str(a), hash(a))")
        prev = (smi, m)
    # generated small molecules: renumbering only (no reader involved)
    for m in small_molecules(rng, 150 if quick else 3000):
        smi = format(m, 'h')
        ck.case(('search-small', smi), nontrivial=len(m) > 1)
        for _ in range(2):
            m2 = corpus.renumber(m, rng)
            S.compare('renumber-generated', smi, m, m2, {'mapping': dict(zip(m._atoms, m2._atoms)), 'atoms': {n: repr(a) for n, a in m.atoms()},
                                                         'bonds': [(n, k, int(bd)) for n, k, bd in m.bonds()]})
    # every numbering of small molecules (all n! permutations of the atom numbers)
    from chython import MoleculeContainer
    lim = 5 if quick else 6
    smalls = CHARGE_TIE[:1] + CHARGE_TIE[-1:] + [x for x in SPECIAL + GAP_EXAMPLES if x not in ('[H][H]',)]
    n_ex = 0
    for smi in smalls:
        try:
            m = smiles(smi)
        except Exception:
            continue
        if not (2 <= len(m) <= lim) or n_ex >= (14 if quick else 60):
            continue
        n_ex += 1
        nums = list(m._atoms)
        base = str(m)
        strings = set()
        for perm in itertools.permutations(nums):
            c = m.copy()
            c.remap(dict(zip(nums, perm)))
            strings.add(str(c))
            ck.count('search:exhaustive-numberings')
        ck.case(('search-exhaustive', smi), nontrivial=True)
        if strings != {base}:
            gaps = gap_classes(m)
            if charge_hash_collision(m):
                ck.counterexample(CHARGE_TIE_KEY, 'canonical SMILES depends on the numbering (charge -1 / -2 hash collision)', {'smiles': smi},
                                  sorted(strings), 'one string', 'all n! numberings', replay_py=CHARGE_TIE_REPLAY)
            elif wl_equivalent_components(m) and all(same_components(base, x) for x in strings):
                ck.counterexample(WL_TIE_KEY, 'canonical SMILES depends on the numbering (order of WL-equivalent components)', {'smiles': smi},
                                  sorted(strings), 'one string', 'all n! numberings', replay_py=WL_TIE_REPLAY)
            elif 'bond-tie' in gaps:
                ck.counterexample(BOND_TIE_KEY, 'canonical SMILES depends on the numbering (bond-order tie)', {'smiles': smi}, sorted(strings),
                                  'one string', 'all n! numberings', replay_py=BOND_TIE_REPLAY)
            elif gaps:
                ck.count('search:gap-skipped:' + '+'.join(sorted(gaps)))
            else:
                ck.counterexample(f'canon-differs:all-numberings:{smi}', 'canonical SMILES differs between numberings of one molecule',
                                  {'smiles': smi}, sorted(strings), 'one string', 'all n! numberings by remap()',
                                  replay_py=f"from chython import smiles; import itertools; m=smiles({smi!r}); ns=list(m._atoms); "
                                            f"print({{str((lambda c: (c.remap(dict(zip(ns, p))), c)[1])(m.copy())) for p in itertools.permutations(ns)}})")
    ck.extra['gap_skips'] = S.gap_hits
    return S


# =============================================================================================================
# correspondence: real code vs the Coq model (exact ints)

COQ_EXTRA = '''From Model Require Import PyHash Graph Morgan MorganFast Stereo Writer ChiralMorgan.
From Model Require Import StereoRegistry.
From Proofs Require Import WriterInvProofs WriterStereoExt StereoProofs RegistryRemapExt StereoOrderExt EnvLaws CtMapOrderExt SameStereo ChiralOrderExt ChiralReinsertExt ChiralReinsertBool ChiralStates MolPermDecide.
Import ListNotations.
Open Scope Z_scope.
Definition iadj_eqb (a b : iadj) : bool := list_eqb (pair_eqb Z.eqb (list_eqb (pair_eqb Z.eqb Z.eqb))) a b.
Definition rank_res (r : pyres labels) : pyres labels := match r with Ok a => Ok (dense_rank a) | Err e => Err e end.
(* _morgan on raw dicts: labels before the ranking, then the result (morgan = rank_res of morgan_labels, by definition) *)
Definition mg_ok (atoms : labels) (adj : iadj) (exp_labels exp : pyres labels) : bool :=
  let r := fast_morgan_labels atoms adj in res_eqb r exp_labels && res_eqb (rank_res r) exp && res_eqb (fast_morgan atoms adj) exp.
(* a molecule: hash(atom) for every atom, int_adjacency, atoms_order *)
Definition ao_ok (rings : list Z) (g : mol) (hashes : labels) (ia : iadj) (exp : pyres labels) : bool :=
  labels_eqb (fast_atom_labels rings g) hashes && iadj_eqb (int_adjacency g) ia && res_eqb (fast_atoms_order rings g) exp.
(* the same with the labels of the last refinement round (molecules with at least two atoms) *)
Definition aol_ok (rings : list Z) (g : mol) (exp_labels exp : pyres labels) : bool :=
  let r := fast_morgan_labels (fast_atom_labels rings g) (int_adjacency g) in
  res_eqb r exp_labels && res_eqb (rank_res r) exp && (2 <=? Z.of_nat (List.length (m_atoms g))).
(* the start atom and the first child of the writer model (Model.Writer: key_start / key_child_at / min_by / sort_by / bfs) with
   the real weights w and the observed order as tie-break priority *)
Definition zfun (l : list (Z * Z)) (n : Z) : Z := match zget l n with Some x => x | None => 0 end.
Definition wk_ok (g : mol) (w tb : list (Z * Z)) (start : Z) (second : option Z) : bool :=
  let all := ids g in
  let seen := bfs g (S (List.length all)) [(start, 1)] [(start, 0)] in
  option_eqb Z.eqb (min_by (key_start (zfun w) (zfun tb) default_opts all) all) (Some start) &&
  option_eqb Z.eqb (hd_error (sort_by (key_child_at g (zfun w) (zfun tb) default_opts all seen start) (nbr_ids g start))) second.
(* the whole writer model on a small molecule: canonical string and written order, with the real weights (_chiral_morgan) *)
Definition wr_ok (g : mol) (w tb : list (Z * Z)) (tabs : stabs) (text : string) (order : list Z) : bool :=
  match smiles_text g (zfun w) (zfun tb) default_opts tabs with
  | Ok (txt, ord) => String.eqb txt text && list_eqb Z.eqb ord order
  | Err _ => false
  end.
(* _chiral_morgan: from the molecule (atoms_order by the Morgan model) to the stereo-aware weights, with the label dicts passed
   to `_morgan` call by call; [ord] = iteration order of the three sets as first built *)
Definition cm_ok (rings : list Z) (g : mol) (tabs : cmtabs) (ord : cmorders) (exp : pyres labels) (trace : list labels) : bool :=
  match fast_atoms_order rings g with
  | Err e => pyres_eqb labels_eqb (Err e) exp
  | Ok ao => match chiral_morgan hash63 g tabs ao ord with
             | Ok (r, tr) => pyres_eqb labels_eqb (Ok r) exp && list_eqb labels_eqb tr trace
             | Err e => pyres_eqb labels_eqb (Err e) exp
             end
  end.
(* hypothesis and conclusion of C01_chiral_morgan_order_independent on real molecules: whenever the run of the model on the real
   iteration orders is uniform (uniform_run_b), the real __differentiation never returned a group for the flip-half heuristic, and
   the model on SHUFFLED iteration orders gives the same weights and the same trace *)
Definition cmres_eqb (a b : pyres (labels * list labels)) : bool :=
  match a, b with
  | Ok (r, t), Ok (r', t') => labels_eqb r r' && list_eqb labels_eqb t t'
  | Err _, Err _ => true
  | _, _ => false
  end.
Definition cm_uniform (rings : list Z) (g : mol) (tabs : cmtabs) (ord : cmorders) : option (labels * bool) :=
  match fast_atoms_order rings g with
  | Err _ => None
  | Ok ao => Some (ao, uniform_run_b hash63 g tabs (diff_fuel ord) ao (o_atoms ord) (o_ct ord) (o_al ord))
  end.
Definition cmo_ok (rings : list Z) (g : mol) (tabs : cmtabs) (ord ord2 : cmorders) (flip_free : bool) : bool :=
  match cm_uniform rings g tabs ord with
  | Some (ao, true) => flip_free && cmres_eqb (chiral_morgan hash63 g tabs ao ord2) (chiral_morgan hash63 g tabs ao ord)
  | _ => true
  end.
(* how often the hypothesis holds: uniform_run_b == "the real run needed no flip-half group" (not a theorem: counted, never an alarm) *)
Definition cmu_is (rings : list Z) (g : mol) (tabs : cmtabs) (ord : cmorders) (flip_free : bool) : bool :=
  match cm_uniform rings g tabs ord with
  | Some (_, u) => Bool.eqb u flip_free
  | None => true
  end.
(* hypotheses and conclusion of C01_chiral_morgan_two_descriptions on real molecules: g1 = the molecule rebuilt through the public
   API in other insertion orders and mapped back to the numbers of g (registries and stored signs recomputed by the library);
   whenever the decidable hypotheses hold (two_desc_b) the two model results must be the same dict up to item order *)
Definition cmres_perm_b (a b : pyres (labels * list labels)) : bool :=
  match a, b with
  | Ok (r, t), Ok (r', t') => pperm_b r r' && list_eqb pperm_b t t'
  | Err _, Err _ => true
  | _, _ => false
  end.
Definition two_hyp (rings : list Z) (g g1 : mol) (tabs tabs1 : cmtabs) (flips : list (Z * Z)) (ord ord1 : cmorders) : option (labels * labels * bool) :=
  match fast_atoms_order rings g, fast_atoms_order rings g1 with
  | Ok ao, Ok ao1 => Some (ao, ao1, mol_perm_b (strip g) (strip g1) && two_desc_b hash63 g g1 tabs tabs1 (fun p => existsb (cpair_eqb p) flips) ao ao1 ord ord1)
  | _, _ => None
  end.
Definition two_ok (rings : list Z) (g g1 : mol) (tabs tabs1 : cmtabs) (flips : list (Z * Z)) (ord ord1 : cmorders) : bool :=
  match two_hyp rings g g1 tabs tabs1 flips ord ord1 with
  | Some (ao, ao1, true) => cmres_perm_b (chiral_morgan hash63 g tabs ao ord) (chiral_morgan hash63 g1 tabs1 ao1 ord1)
  | _ => true
  end.
(* how often the hypotheses hold (counted, never an alarm) *)
Definition two_is (rings : list Z) (g g1 : mol) (tabs tabs1 : cmtabs) (flips : list (Z * Z)) (ord ord1 : cmorders) (expected : bool) : bool :=
  match two_hyp rings g g1 tabs tabs1 flips ord ord1 with
  | Some (_, _, u) => Bool.eqb u expected
  | None => true
  end.
(* intermediate states: what every call of __differentiation returns (labels in insertion order, the three stereo sets in iteration
   order, the groups for the flip-half heuristic) == the states of the model's outer loop, call by call *)
Definition dstate := (labels * list Z * list (Z * Z) * list Z * (list (list Z) * list (list (Z * (Z * Z))) * list (list Z)))%type.
Definition dstate_eqb (d : dres) (x : dstate) : bool :=
  let '(m, sa, sct, sal, (ga, gct, gal)) := x in
  labels_eqb (d_morgan d) m && list_eqb Z.eqb (d_atoms d) sa && list_eqb zz_eqb2 (d_ct d) sct && list_eqb Z.eqb (d_al d) sal &&
  list_eqb (list_eqb Z.eqb) (d_ga d) ga && list_eqb (list_eqb (pair_eqb Z.eqb zz_eqb2)) (d_gct d) gct && list_eqb (list_eqb Z.eqb) (d_gal d) gal.
Fixpoint states_eqb (a : list (pyres dres)) (b : list dstate) : bool :=
  match a, b with
  | [], [] => true
  | Ok d :: r, x :: s => dstate_eqb d x && states_eqb r s
  | _, _ => false
  end.
Definition cms_ok (rings : list Z) (g : mol) (tabs : cmtabs) (ord : cmorders) (states : list dstate) : bool :=
  match fast_atoms_order rings g with
  | Err _ => true
  | Ok ao => states_eqb (chiral_states hash63 g tabs ao ord) states
  end.
(* hypothesis of C01_smiles_invariant_discrete_remap: the stereo registries of the remap()-ed molecule are the renamed registries,
   and the remap()-ed molecule is ren_mol (same insertion orders) *)
Definition oz_eqb := option_eqb Z.eqb.
Definition env_eqb (a b : env4) : bool :=
  let '(a0, a1, a2, a3) := a in let '(b0, b1, b2, b3) := b in (a0 =? b0) && (a1 =? b1) && oz_eqb a2 b2 && oz_eqb a3 b3.
Definition zz_eqb (a b : Z * Z) : bool := (fst a =? fst b) && (snd a =? snd b).
Definition stabs_eqb (a b : stabs) : bool :=
  list_eqb (pair_eqb Z.eqb (list_eqb Z.eqb)) (t_tetra a) (t_tetra b) && list_eqb (pair_eqb Z.eqb env_eqb) (t_allenes a) (t_allenes b) &&
  list_eqb (pair_eqb Z.eqb zz_eqb) (t_allene_term a) (t_allene_term b) && list_eqb (pair_eqb zz_eqb env_eqb) (t_sct a) (t_sct b) &&
  list_eqb (pair_eqb Z.eqb zz_eqb) (t_ctc a) (t_ctc b) && list_eqb (pair_eqb Z.eqb zz_eqb) (t_ctt a) (t_ctt b) &&
  list_eqb (pair_eqb Z.eqb Z.eqb) (t_ctcp a) (t_ctcp b).
Definition sfun (f : list (Z * Z)) (n : Z) : Z := match zget f n with Some x => x | None => n end.
Definition remap_ok (f : list (Z * Z)) (g g' : mol) (tabs tabs' : stabs) : bool :=
  mol_eqb (ren_mol (sfun f) g) g' && stabs_eqb (ren_tabs (sfun f) tabs) tabs' &&
  (* the registries the registry model of C12 computes are the real ones (C01_smiles_invariant_discrete_remap_registries) *)
  match registries_real g with Ok r => stabs_eqb (stabs_of_reg r) tabs | Err _ => false end.
(* hypothesis of the insertion-order theorems: a renumbered and insertion-order shuffled molecule g' satisfies
   mol_perm (ren_mol s g) g' (decided here by sorting atoms, adjacency rows and neighbours by atom number) *)
Definition norm_mol (g : mol) : mol :=
  mkMol (isort (fun a b : Z * atom => fst a <=? fst b) (m_atoms g))
        (isort (fun a b : Z * list (Z * bond) => fst a <=? fst b)
               (map (fun nl => (fst nl, isort (fun a b : Z * bond => fst a <=? fst b) (snd nl))) (m_adj g))).
Definition perm_ok (f : list (Z * Z)) (g g' : mol) : bool :=
  mol_eqb (norm_mol (ren_mol (sfun f) g)) (norm_mol g') && wf_mol g && wf_mol g'.
(* hypothesis stereo_atoms_reordered2 of the insertion-order theorems with tetrahedral marks: in a molecule rebuilt through
   add_atom / add_bond / add_atom_stereo the registry of a labelled centre lists the renamed neighbours in the order `sel order q` and
   the stored sign is the old one xor the parity of q (q ++ [3] for three listed neighbours) *)
Definition reord_ok (three : bool) (q : list Z) (sg sg' : bool) : bool :=
  if three then in_perms perms3 q && Bool.eqb sg' (xorb sg (odd_perm (q ++ [3])))
  else in_perms perms4 q && Bool.eqb sg' (xorb sg (odd_perm q)).
(* hypotheses same_atom_stereo / same_ct_stereo of C01_smiles_invariant_discrete, decided on the atoms of the molecule by searching
   the witnesses (re-ordering q of a tetrahedron, swaps sa sb and exchange xe of an environment, orientation of a centre pair):
   g' = molecule rebuilt through the public API with atoms, bonds and neighbours inserted in another order and other numbers *)
Definition bools : list bool := [false; true].
Definition oenv_eqb := option_eqb env_eqb.
Definition env_ok_b (g : mol) (e : env4) : bool :=
  let '(n0, n1, n2, n3) := e in
  negb (n0 =? n1) && negb (is_H g n0) && negb (is_H g n1) &&
  match n2 with Some x => negb (x =? n0) && negb (x =? n1) && negb (is_H g x) | None => true end &&
  match n3 with Some y => negb (y =? n0) && negb (y =? n1) && negb (is_H g y) | None => true end &&
  match n2, n3 with Some x, Some y => negb (x =? y) | _, _ => true end.
Definition atom_same_b (s : Z -> Z) (g g' : mol) (tabs tabs' : stabs) (n : Z) : bool :=
  match atom_of g n, atom_of g' (s n) with
  | Some a, Some a' =>
      match a_stereo a with
      | None => match a_stereo a' with None => true | Some _ => false end
      | Some sg =>
          match a_stereo a' with
          | None => false
          | Some sg' =>
              match zget (t_allene_term tabs) n with
              | Some (t1, t2) =>
                  match zget (t_allenes tabs) n with
                  | None => false
                  | Some env =>
                      env_ok_b g env &&
                      existsb (fun sa : bool => existsb (fun sb : bool => existsb (fun xe : bool =>
                        implb sa (canA env) && implb sb (canB env) &&
                        option_eqb zz_eqb (zget (t_allene_term tabs') (s n)) (Some (if xe then (s t2, s t1) else (s t1, s t2))) &&
                        oenv_eqb (zget (t_allenes tabs') (s n)) (Some (ren_env s (var_env sa sb xe env))) &&
                        Bool.eqb sg' (xorb sg (xorb sa sb))) bools) bools) bools
                  end
              | None =>
                  match zget (t_allene_term tabs') (s n), zget (t_tetra tabs) n, zget (t_tetra tabs') (s n) with
                  | None, Some order, Some order' =>
                      option_eqb Z.eqb (a_h a') (a_h a) && nodup_z order &&
                      (if Z.of_nat (List.length order) =? 4
                       then existsb (fun q => list_eqb Z.eqb order' (map s (sel order q)) && Bool.eqb sg' (xorb sg (odd_perm q))) perms4
                       else (Z.of_nat (List.length order) =? 3) &&
                            existsb (fun q => list_eqb Z.eqb order' (map s (sel order q)) && Bool.eqb sg' (xorb sg (odd_perm (q ++ [3])))) perms3)
                  | _, _, _ => false
                  end
              end
          end
      end
  | _, _ => false
  end.
Definition ct_same_b (s : Z -> Z) (g g' : mol) (tabs tabs' : stabs) (k : Z) : bool :=
  option_eqb Z.eqb (zget (t_ctcp tabs') (s k)) (option_map s (zget (t_ctcp tabs) k)) &&
  match zget (t_ctc tabs) k, zget (t_ctc tabs') (s k) with
  | None, None => true
  | Some (i, j), Some c' => zz_eqb c' (s i, s j) || zz_eqb c' (s j, s i)
  | _, _ => false
  end &&
  match envof tabs k with
  | None => match envof tabs' (s k) with None => true | Some _ => false end
  | Some e => existsb (fun sa : bool => existsb (fun sb : bool => existsb (fun xe : bool =>
                oenv_eqb (envof tabs' (s k)) (Some (ren_env s (var_env sa sb xe e)))) bools) bools) bools
  end &&
  match zget (t_ctcp tabs) k with
  | None => true
  | Some o' =>
      match oenv tabs k o' with
      | None => match oenv tabs' (s k) (s o') with None => true | Some _ => false end
      | Some e => existsb (fun sa : bool => existsb (fun sb : bool =>
                    implb sa (canA e) && implb sb (canB e) &&
                    oenv_eqb (oenv tabs' (s k) (s o')) (Some (ren_env s (var_env sa sb false e))) &&
                    option_eqb Bool.eqb (centre_stereo g' tabs' (s k)) (option_map (fun s0 => xorb s0 (xorb sa sb)) (centre_stereo g tabs k)))
                  bools) bools
      end
  end.
Definition same_stereo_ok (f : list (Z * Z)) (g g' : mol) (tabs tabs' : stabs) : bool :=
  let s := sfun f in
  forallb (fun na => negb (a_num (snd na) =? 1)) (m_atoms g) && forallb (fun na => negb (a_num (snd na) =? 1)) (m_atoms g') &&
  mol_eqb (norm_mol (ren_mol s (strip g))) (norm_mol (strip g')) && wf_mol (strip g) && wf_mol (strip g') &&
  forallb (atom_same_b s g g' tabs tabs') (ids g) && forallb (ct_same_b s g g' tabs tabs') (ids g) &&
  list_eqb Z.eqb (isort Z.leb (map s (stereo_bond_atoms g))) (isort Z.leb (stereo_bond_atoms g')) &&
  forallb (fun ke => env_ok_b g (snd ke)) (t_sct tabs) && forallb (fun ke => env_ok_b g' (snd ke)) (t_sct tabs').
(* the Uint63 hash against the arbitrary-precision model of PyHash.v *)
Definition h_ok (l : list Z) (v : Z) : bool := (hash63 l =? v) && (hash_ztuple l =? v).
'''


# the functions TRANSLATED from the source (coq/gen/MorganBody.v) evaluated directly against the implementation; a cases file of its
# own, so that a source the translator refuses (no generated file) does not take the model correspondence down with it
COQ_EXTRA_GEN = '''From Model Require Import PyHash Graph Morgan MorganFast.
From Gen Require Import MorganBody.
Import ListNotations.
Open Scope Z_scope.
Definition gmg_ok (atoms : labels) (adj : iadj) (exp_labels exp : pyres labels) : bool :=
  res_eqb (g_morgan hash63 atoms adj) exp && res_eqb (g_morgan_labels hash63 atoms adj) exp_labels.
(* the translated Morgan.atoms_order (with the translated Element.__hash__, Bond.__hash__, int_adjacency) *)
Definition gao_ok (rings : list Z) (g : mol) (exp : pyres labels) : bool :=
  res_eqb (g_atoms_order hash63 (fun n => zmem n rings) g) exp.
'''


def run_cases(name, imports, cases, **kw):
    """coqcases.run_cases; when a shard was killed from outside (the OOM killer of a shared machine prints `Killed`) the evaluation is
    repeated once: a verdict of the model is reproducible, a kill is not"""
    ok, failing, log = coqcases.run_cases(name, imports, cases, **kw)
    if not ok and 'Killed' in (log or ''):
        ok, failing, log = coqcases.run_cases(name, imports, cases, **kw)
    return ok, failing, log


def zmap(d):
    return lst([tup(zraw(k), zraw(v)) for k, v in d.items()])


def env_term(e):
    return f'({zraw(e[0])}, {zraw(e[1])}, {opt(e[2], zraw)}, {opt(e[3], zraw)})'


def pair_term(p):
    return f'({zraw(p[0])}, {zraw(p[1])})'


def tabs_term(m):
    """the stereo registries the writer model takes as input (Writer.stabs)"""
    if not n_stereo(m):
        return 'no_stabs'
    return ('(mkStabs ' +
            lst([tup(zraw(n), lst(list(v), zraw)) for n, v in m.stereogenic_tetrahedrons.items()]) + ' ' +
            lst([tup(zraw(n), env_term(v)) for n, v in m.stereogenic_allenes.items()]) + ' ' +
            lst([tup(zraw(n), pair_term(v)) for n, v in m._stereo_allenes_terminals.items()]) + ' ' +
            lst([tup(pair_term(k), env_term(v)) for k, v in m.stereogenic_cis_trans.items()]) + ' ' +
            lst([tup(zraw(n), pair_term(v)) for n, v in m._stereo_cis_trans_centers.items()]) + ' ' +
            lst([tup(zraw(n), pair_term(v)) for n, v in m._stereo_cis_trans_terminals.items()]) + ' ' +
            lst([tup(zraw(n), zraw(v)) for n, v in m._stereo_cis_trans_counterpart.items()]) + ')')


def cmtabs_term(m):
    return ('(mkCm ' + lst(list(m.tetrahedrons), zraw) + ' ' +
            lst([tup(zraw(n), lst(list(v), zraw)) for n, v in m.stereogenic_tetrahedrons.items()]) + ' ' +
            lst([tup(zraw(n), env_term(v)) for n, v in m.stereogenic_allenes.items()]) + ' ' +
            lst([tup(pair_term(k), env_term(v)) for k, v in m.stereogenic_cis_trans.items()]) + ' ' +
            lst([tup(zraw(n), pair_term(v)) for n, v in m._stereo_cis_trans_centers.items()]) + ')')


class ChiralSpy:
    """records the label dicts passed to `_morgan` by _chiral_morgan / __differentiation (module-level name of
    chython.algorithms.stereo), removed afterwards"""

    def __enter__(self):
        import chython.algorithms.stereo as st
        self.st = st
        self.orig = st._morgan
        self.trace = []

        def spy(atoms, bonds):
            self.trace.append(dict(atoms))
            return self.orig(atoms, bonds)
        st._morgan = spy
        # the groups __differentiation hands to the flip-half heuristic, call by call
        self.flips = []
        self.states = []
        self.orig_d = st.MoleculeStereo._MoleculeStereo__differentiation
        orig_d = self.orig_d

        def diff(mol, *a):
            r = orig_d(mol, *a)
            self.flips.append(bool(r[4] or r[5] or r[6]))
            # snapshot (the sets are mutated in place by later calls)
            self.states.append((dict(r[0]), list(r[1]), list(r[2]), list(r[3]), [list(x) for x in r[4]], [list(x) for x in r[5]], [list(x) for x in r[6]]))
            return r
        st.MoleculeStereo._MoleculeStereo__differentiation = diff
        return self

    def __exit__(self, *a):
        self.st._morgan = self.orig
        self.st.MoleculeStereo._MoleculeStereo__differentiation = self.orig_d


def cm_orders(m):
    """the three stereo sets of _chiral_morgan in their iteration order (built with the same expressions as the code)"""
    stereo_atoms = {n for n, a in m.atoms() if a.stereo is not None}
    stereo_bonds = {n for n, mb in m._bonds.items() if any(b.stereo is not None for _, b in mb.items())}
    atoms_stereo = stereo_atoms.intersection(m.tetrahedrons)
    allenes_stereo = stereo_atoms - atoms_stereo
    ctt = m._stereo_cis_trans_terminals
    try:
        cis_trans_stereo = {ctt[n] for n in stereo_bonds}
    except KeyError:
        return None
    return list(atoms_stereo), list(cis_trans_stereo), list(allenes_stereo)


def two_descriptions_case(spy, kk, new, fmap):
    """kk and the rebuilt molecule mapped back to kk's numbers: Coq cases for C01_chiral_morgan_two_descriptions"""
    inv = {v: k for k, v in fmap.items()}
    g1 = new.copy()
    off = max(max(g1._atoms), max(kk._atoms)) + 1
    g1.remap({n: n + off for n in g1._atoms})
    g1.remap({n + off: inv[n] for n in inv})
    o0, o1 = cm_orders(kk), cm_orders(g1)
    if o0 is None or o1 is None:
        return None
    flips = [p for p in o0[1] if p not in o1[1] and (p[1], p[0]) in o1[1]]
    # the real runs: no flip-half group on the first description
    kk.__dict__.pop('_chiral_morgan', None)
    spy.flips = []
    try:
        w0 = kk._chiral_morgan
        g1.__dict__.pop('_chiral_morgan', None)
        w1 = g1._chiral_morgan
    except KeyError:
        return None
    flip_free = not any(spy.flips)
    ring = [n for n, a in kk.atoms() if a.in_ring]
    ot = lambda o: f'(mkCmo {lst(o[0], zraw)} {lst(o[1], pair_term)} {lst(o[2], zraw)})'
    head = f'{lst(ring, zraw)} {mol_term(kk)} {mol_term(g1)} {cmtabs_term(kk)} {cmtabs_term(g1)} {lst(flips, pair_term)} {ot(o0)} {ot(o1)}'
    # the real weights agree as functions of the atom exactly when the theorem says so (search oracle on the real code)
    same = dict(w0) == dict(w1)
    return f'two_ok {head}', f'two_is {head} {b(flip_free)}', flip_free, same, bool(flips)


def chiral_case(spy, m, rng=None):
    """one run of the real _chiral_morgan: (Coq case, weights).  The iteration orders of the three sets are obtained by building
    them with the same expressions as the code does (CPython's order for a given construction is deterministic)"""
    stereo_atoms = {n for n, a in m.atoms() if a.stereo is not None}
    stereo_bonds = {n for n, mb in m._bonds.items() if any(b.stereo is not None for _, b in mb.items())}
    atoms_stereo = stereo_atoms.intersection(m.tetrahedrons)
    allenes_stereo = stereo_atoms - atoms_stereo
    ctt = m._stereo_cis_trans_terminals
    try:
        cis_trans_stereo = {ctt[n] for n in stereo_bonds}
    except KeyError:
        return None, None
    ord_term = f'(mkCmo {lst(list(atoms_stereo), zraw)} {lst(list(cis_trans_stereo), pair_term)} {lst(list(allenes_stereo), zraw)})'
    ring = [n for n, a in m.atoms() if a.in_ring]
    m.__dict__.pop('_chiral_morgan', None)
    spy.trace = []
    spy.flips = []
    spy.states = []
    try:
        w = m._chiral_morgan
        exp = f'(Ok {zmap(w)})'
    except KeyError:
        w, exp = None, '(Err KeyError)'
    trace = lst([zmap(t) for t in spy.trace])
    # C01_chiral_morgan_order_independent: the same sets in a shuffled iteration order
    spy.last_order_cases = None
    spy.last_states_case = None
    if w is not None:
        def st_term(s):
            mm, sa, sct, sal, ga, gct, gal = s
            groups = tup(lst(ga, lambda x: lst(x, zraw)), lst(gct, lambda grp: lst(grp, lambda x: tup(zraw(x[0]), pair_term(x[1])))),
                         lst(gal, lambda x: lst(x, zraw)))
            return tup(zmap(mm), lst(sa, zraw), lst(sct, pair_term), lst(sal, zraw), groups)
        spy.last_states_case = (f'cms_ok {lst(ring, zraw)} {mol_term(m)} {cmtabs_term(m)} {ord_term} {lst(spy.states, st_term)}', len(spy.states))
    if w is not None and rng is not None:
        sh = [list(atoms_stereo), list(cis_trans_stereo), list(allenes_stereo)]
        for x in sh:
            rng.shuffle(x)
        ord2 = f'(mkCmo {lst(sh[0], zraw)} {lst(sh[1], pair_term)} {lst(sh[2], zraw)})'
        flip_free = not any(spy.flips)
        head = f'{lst(ring, zraw)} {mol_term(m)} {cmtabs_term(m)} {ord_term}'
        spy.last_order_cases = (f'cmo_ok {head} {ord2} {b(flip_free)}', f'cmu_is {head} {b(flip_free)}', flip_free,
                                max(len(x) for x in sh) > 1, len(spy.trace))
    return f'cm_ok {lst(ring, zraw)} {mol_term(m)} {cmtabs_term(m)} {ord_term} {exp} {trace}', w


# molecules with several equal stereo elements: the stereo refinement has to work (meso / chiral pairs, rings, polyenes)
STEREO_TIES = [
    'C[C@H](O)[C@@H](O)C', 'C[C@H](O)[C@H](O)C', 'C[C@@H](O)[C@@H](O)C', 'O[C@H](C)C[C@@H](C)O', 'O[C@H](C)C[C@H](C)O',
    'C[C@H](Cl)C(C)(C)[C@@H](C)Cl', 'C[C@H](F)[C@H](Cl)[C@H](Cl)[C@@H](C)F', 'C[C@H](F)[C@H](Cl)[C@@H](Cl)[C@@H](C)F',
    'C/C=C/C/C=C/C', 'C/C=C/C/C=C\\C', 'C/C=C\\C/C=C\\C', 'C/C=C/C(C)(C)/C=C\\C', 'F/C=C/C=C/F', 'F/C=C/C=C\\F', 'F/C=C\\C=C/F',
    'C[C@H]1CC[C@@H](C)CC1', 'C[C@H]1CC[C@H](C)CC1', 'C[C@H]1C[C@@H](C)C1', 'O[C@H]1[C@H](O)[C@@H](O)[C@H](O)[C@@H](O)[C@@H]1O',
    'C[C@H]1CCC[C@@H](C)C1', 'C[C@H]1CCC[C@H](C)C1', 'C[C@@H]1C[C@H](C)C[C@H](C)C1', 'CC=[C@]=CC(C)(C)C=[C@]=CC', 'CC=[C@]=CC(C)(C)C=[C@@]=CC',
    'C[C@H](N)C(=O)N[C@@H](C)C(=O)O', 'OC[C@H](O)[C@@H](O)[C@H](O)[C@H](O)CO', 'OC[C@H](O)[C@@H](O)[C@@H](O)[C@H](O)CO',
    'C/C=C/[C@H](C)/C=C/C', 'C/C=C/[C@H](C)/C=C\\C', 'C/C=C/[C@@H](O)[C@H](O)/C=C/C', 'C(=C/C)(/C=C/C)/C=C\\C',
]
# pairs of constitutionally equivalent stereo double bonds / allenes whose ends carry TWO non-hydrogen substituents (tri- and
# tetrasubstituted): the sign of each member is taken relative to the substituent of lowest Morgan class on both ends
# (min(n1, n2, key=morgan.get), min(m1, m2, key=morgan.get)), which is not the substituent of lowest number; like and unlike pairs
EZ_TIES = [
    'C/C=C(/F)CC/C(F)=C\\C', 'C/C=C(/F)CC/C(F)=C/C', 'C/C=C(\\F)CC/C(F)=C\\C', 'C/C(Cl)=C(/F)CC/C(F)=C(\\C)Cl', 'C/C(Cl)=C(/F)CC/C(F)=C(/C)Cl',
    'F/C(C)=C/CC/C=C(\\F)C', 'F/C(C)=C/CC/C=C(/F)C', 'C/C=C(/F)C(C)(C)/C(F)=C\\C', 'C/C=C(/Cl)CCCC/C(Cl)=C\\C', 'CC/C(C)=C(/F)CC/C(F)=C(\\C)CC',
    'C/C=C(/F)O/C(F)=C\\C', 'N/C(O)=C(/F)CC/C(F)=C(\\N)O', 'N/C(O)=C(/F)CC/C(F)=C(/N)O', 'CC(F)=[C@]=CCCC=[C@@]=C(C)F', 'CC(F)=[C@]=CCCC=[C@]=C(C)F',
    'C/C=C(/F)C/C=C/C/C(F)=C\\C', 'C/C=C(/F)c1ccc(cc1)/C(F)=C\\C', 'C/C=C(/F)CC/C(F)=C\\C.C/C=C(/F)CC/C(F)=C/C',
]
STEREO_TIES = STEREO_TIES + EZ_TIES


def cstr(text):
    assert all(32 <= ord(c) < 127 for c in text), repr(text)
    return '"' + text.replace('"', '""') + '"%string'


def adj_term(bonds):
    return lst([tup(zraw(n), zmap(ms)) for n, ms in bonds.items()])


class MorganSpy:
    """observes the labels of the last refinement round: they are the argument of the one `sorted(..., key=...)` call of
    `_morgan` (the ranking); installed as a module global of chython.algorithms.morgan, removed afterwards"""

    def __enter__(self):
        import logging
        import chython.algorithms.morgan as mg
        logging.getLogger('chython.morgan').setLevel(logging.ERROR)   # "uniqueness has decreased" on malformed dicts is expected
        self.mg = mg
        self.last = None
        self.rounds = 0

        def spy_sorted(it, key=None):
            if key is None:
                self.rounds += 1
                return sorted(it)
            it = list(it)
            self.last = it
            return sorted(it, key=key)
        mg.sorted = spy_sorted
        return self

    def __exit__(self, *a):
        del self.mg.sorted

    def call(self, atoms, bonds):
        """returns (result term, labels term, result value or None)"""
        self.last = None
        try:
            r = self.mg._morgan(dict(atoms), {n: dict(ms) for n, ms in bonds.items()})
        except KeyError:
            return 'Err KeyError', 'Err KeyError', None
        except Exception:  # the model knows no other outcome
            return 'Err OtherError', 'Err OtherError', None
        if self.last is None:   # the ranking no longer goes through sorted(..., key=...): nothing observed, the case fails
            return f'Ok {zmap(r)}', 'Err OtherError', r
        return f'Ok {zmap(r)}', f'Ok {lst([tup(zraw(k), zraw(v)) for k, v in self.last])}', r


def reinserted_view(m, rng):
    """the molecule as if its atoms had been added in another order and its bonds in another order: _atoms and _bonds get the SAME
    new key order (add_atom fills both), every neighbour dict its own order"""
    c = m.copy()
    ks = list(c._atoms)
    rng.shuffle(ks)
    c._atoms = {n: c._atoms[n] for n in ks}
    nb = {}
    for n in ks:
        ms = list(c._bonds[n])
        rng.shuffle(ms)
        nb[n] = {x: c._bonds[n][x] for x in ms}
    c._bonds = nb
    c.__dict__.clear()
    return c


def shuffled_view(m, rng):
    """the molecule with the items of _atoms, _bonds and of every neighbour dict in another insertion order (raw dicts of a
    copy: enough for Morgan, which does not look at stereo)"""
    c = m.copy()
    ks = list(c._atoms)
    rng.shuffle(ks)
    c._atoms = {n: c._atoms[n] for n in ks}
    ks = list(c._bonds)
    rng.shuffle(ks)
    nb = {}
    for n in ks:
        ms = list(c._bonds[n])
        rng.shuffle(ms)
        nb[n] = {x: c._bonds[n][x] for x in ms}
    c._bonds = nb
    c.__dict__.clear()
    return c


def mol_case(spy, m, with_labels):
    ring = [n for n, a in m.atoms() if a.in_ring]
    hashes = {n: hash(a) for n, a in m.atoms()}
    ia = m.int_adjacency
    m.__dict__.pop('atoms_order', None)
    spy.last = None
    ao = m.atoms_order
    exp = f'(Ok {zmap(ao)})'
    if with_labels and len(m) > 1:
        labels = '(Err OtherError)' if spy.last is None else f'(Ok {lst([tup(zraw(k), zraw(v)) for k, v in spy.last])})'
        return f'aol_ok {lst(ring, zraw)} {mol_term(m)} {labels} {exp}', ao
    return f'ao_ok {lst(ring, zraw)} {mol_term(m)} {zmap(hashes)} {adj_term(ia)} {exp}', ao


def raw_dict_cases(spy, rng, count):
    """_morgan on raw dicts: well-formed random graphs with few initial colours, and malformed ones (missing keys, extra
    keys, empty, asymmetric adjacency, huge / negative labels)"""
    out = []
    # directed family for the rarely taken `elif stab: stab = 0` branch: an atom without adjacency row vanishes in round 1 while a
    # class splits (count unchanged -> stab = 1), the next round splits again (count changes while stab is set)
    for L in range(5, 13):
        for ghosts in (1, 2):
            atoms = {i: 1 for i in range(1, L + 1)}
            for k in range(ghosts):
                atoms[90 + k] = 2 + k
            bonds = {i: {} for i in range(1, L + 1)}
            for i in range(1, L):
                bonds[i][i + 1] = 1
                bonds[i + 1][i] = 1
            if ghosts == 2:   # a ring closure with a tail instead of the bare path
                bonds[1][L - 2] = bonds[L - 2][1] = 2
            res, labels, _ = spy.call(atoms, bonds)
            out.append((f'mg_ok {zmap(atoms)} {adj_term(bonds)} ({labels}) ({res})', ('raw', 'stall-then-split', atoms, bonds, res)))
    for i in range(count):
        n = rng.randint(0, 8)
        keys = rng.sample(range(-3, 40), n)
        big = rng.random() < .3
        atoms = {k: (rng.choice([-(1 << 62), (1 << 61) - 1, (1 << 61) - 2, -1, -2, 1 << 63, 0, 7]) if big else rng.randint(1, 3)) for k in keys}
        bonds = {k: {} for k in keys}
        for a, c in itertools.combinations(keys, 2):
            if rng.random() < .35:
                o = rng.choice([1, 1, 2, 3, 4, 8])
                bonds[a][c] = o
                bonds[c][a] = o
        kind = 'wf'
        r = rng.random()
        if r < .12 and keys:          # a neighbour that is not an atom -> KeyError
            bonds[rng.choice(keys)][99] = 1
            kind = 'ghost-neighbour'
        elif r < .24 and keys:        # an adjacency row that is not an atom -> KeyError
            bonds[77] = {}
            kind = 'ghost-row'
        elif r < .36 and keys:        # an atom without adjacency row: it silently disappears after round 1
            del bonds[rng.choice(keys)]
            kind = 'missing-row'
        elif r < .44 and keys:        # asymmetric adjacency
            a = rng.choice(keys)
            for c in list(bonds[a]):
                del bonds[a][c]
                break
            kind = 'asymmetric'
        elif r < .5:
            ks = list(bonds)
            rng.shuffle(ks)
            bonds = {k: bonds[k] for k in ks}
            kind = 'row-order'
        res, labels, _ = spy.call(atoms, bonds)
        out.append((f'mg_ok {zmap(atoms)} {adj_term(bonds)} ({labels}) ({res})', ('raw', kind, atoms, bonds, res)))
    return out


def correspondence(ck):
    from chython import smiles, MoleculeContainer
    rng = random.Random(f'{ck.seed}:c01-corr')
    quick = ck.tier == 'quick'
    cases, meta = [], []
    gcases, gmeta = [], []
    ucases, umeta = [], []
    suspects = []
    n_writer = 0
    # labelled centres with an explicit hydrogen atom come first: the whole-string writer cases below are capped
    hc_all = explicit_h_centres(random.Random(f'{ck.seed}:c01-hcentres-corr'), 70 if quick else 250)
    hc_first = []      # members whose canonical string STARTS at the labelled centre (the first-atom rule of _format_atom is in reach)
    for x in hc_all:
        try:
            mx = smiles(x)
            if mx._atoms[mx.smiles_atoms_order[0]].stereo is not None:
                hc_first.append(x)
        except Exception:
            pass
    hc_first = hc_first[:8 if quick else 40]
    hc = hc_first + [x for x in hc_all if x not in hc_first][:14 if quick else 60]
    pool = hc + WL_COMPONENTS[:8] + isotope_twins(random.Random(f'{ck.seed}:c01-twins-corr'), 26 if quick else 80) + SPECIAL + GAP_EXAMPLES + LONG + ALLENES[:4] + COORD + CHARGE_TIE + corpus.sample(corpus.lipo(), 100 if quick else 500, ck.seed, 'c01-corr')
    mols = []
    for smi in pool:
        try:
            m = smiles(smi)
        except Exception:
            continue
        mols.append((smi, m))
    for m in small_molecules(rng, 120 if quick else 600):
        mols.append((format(m, 'h'), m))
    # 2D-fused lattices: Morgan on many fused rings; one of them through the whole writer model (two-digit closure numbers)
    frng = random.Random(f'{ck.seed}:c01-flakes-corr')
    big_writer = set()
    for a, b_, hetero in ((3, 4, True), (4, 4, True), (3, 3, False)) if quick else ((3, 4, True), (4, 4, True), (3, 3, False), (4, 5, True), (5, 5, True)):
        fm = lattice_flake(a, b_, frng, hetero)
        lab = format(fm, 'h')
        mols.append((lab, fm))
    # the whole writer model on a lattice whose canonical string needs a closure number >= 10 (the smallest such among a few candidates)
    for a, b_ in ((3, 4), (3, 4), (3, 4), (3, 4), (4, 4), (4, 4)):
        fm = lattice_flake(a, b_, frng, True)
        if max_closure(str(fm)) >= 10:
            lab = format(fm, 'h')
            mols.append((lab, fm))
            big_writer.add(lab)
            ck.count(f'corr:writer-full:lattice:max-closure-number={max_closure(str(fm))}')
            break
    else:
        ck.count('corr:writer-full:lattice:no-two-digit-closure')
    with MorganSpy() as spy:
        for c, mt in raw_dict_cases(spy, rng, 400 if quick else 2500):
            cases.append(c)
            meta.append(mt)
            gcases.append('g' + c)        # mg_ok ... -> gmg_ok ...
            gmeta.append(mt)
            ck.case(mt, nontrivial=mt[4].startswith('Ok') and len(mt[2]) > 2)
            ck.count(f'corr:raw:{mt[1]}:{"Ok" if mt[4].startswith("Ok") else mt[4]}')
        for smi, m in [('', MoleculeContainer())] + mols:
            variants = [('as-read', m)]
            if len(m) > 1:
                variants.append(('renumbered', corpus.renumber(m, rng)))
                v2 = corpus.renumber(m, rng)
                variants.append(('shuffled', shuffled_view(v2, rng)))
                if len(m) <= 40:
                    cases.append(f'perm_ok {zmap(dict(zip(m._atoms, v2._atoms)))} {mol_term(m)} {mol_term(reinserted_view(v2, rng))}')
                    meta.append(('insertion-order', smi))
                    ck.case(('corr-perm', smi, tuple(v2._atoms)), nontrivial=len(m) > 2)
                    ck.count('corr:insertion-order-hypothesis')
            ref = None
            for i, (how, v) in enumerate(variants):
                c, ao = mol_case(spy, v, with_labels=(i == 1))
                cases.append(c)
                meta.append(('mol', how, smi, dict(ao)))
                if i == 0 and len(v) <= 30:
                    gcases.append(f'gao_ok {lst([n for n, a in v.atoms() if a.in_ring], zraw)} {mol_term(v)} (Ok {zmap(ao)})')
                    gmeta.append(('mol', 'translated-atoms_order', smi, dict(ao)))
                    ck.count('corr:mol:translated-source')
                ck.case(('corr', smi, how, tuple(v._atoms)), nontrivial=len(v) > 2)
                ck.count(f'corr:mol:{how}')
                cls = sorted(ao.values())
                if ref is None:
                    ref = cls
                elif cls != ref:
                    suspects.append(smi)
            # the writer's first two choices
            for how, v in variants[-2:-1]:
                if len(v) and len(v) <= 40:
                    order = list(v.smiles_atoms_order)
                    w = v._chiral_morgan
                    second = order[1] if len(order) > 1 and order[1] in v._bonds[order[0]] else None
                    cases.append(f'wk_ok {mol_term(v)} {zmap(w)} {zmap({n: i for i, n in enumerate(order)})} {zraw(order[0])} '
                                 f'{"None" if second is None else "(Some " + zraw(second) + ")"}')
                    meta.append(('writer-keys', how, smi, order[:2]))
                    ck.case(('corr-wk', smi, how, tuple(order[:2])), nontrivial=len(v) > 2)
                    ck.count('corr:writer-keys')
            # the whole writer model (canonical string + order) on small molecules
            if (0 < len(m) <= 24 and n_writer < (80 if quick else 330)) or smi in big_writer:
                n_writer += 1
                if any(a.stereo is not None and not a.implicit_hydrogens and any(m._atoms[x].atomic_number == 1 for x in m._bonds[n]) for n, a in m.atoms()):
                    ck.count('corr:writer-full:centre-with-explicit-H' + (':written-first' if m._atoms[m.smiles_atoms_order[0]].stereo is not None else ''))
                for how, v in variants[:2]:
                    order = list(v.smiles_atoms_order)
                    cases.append(f'wr_ok {mol_term(v)} {zmap(v._chiral_morgan)} {zmap({n: i for i, n in enumerate(order)})} {tabs_term(v)} '
                                 f'{cstr(str(v))} {lst(order, zraw)}')
                    meta.append(('writer', how, smi, str(v)))
                    ck.case(('corr-wr', smi, how, tuple(order)), nontrivial=len(v) > 2)
                    ck.count('corr:writer-full')
            ck.count(f'corr:mol:atoms<={min(90, -(-len(m) // 10) * 10)}')
            ck.count('corr:mol:classes-discrete' if len(set(m.atoms_order.values())) == len(m) else 'corr:mol:classes-tied')
    # _chiral_morgan / __differentiation: stereo molecules as read and renumbered, weights and `_morgan` inputs call by call
    cpool = hc[:12] + STEREO_TIES + GAP_EXAMPLES + ALLENES + [x for x in SPECIAL if '@' in x or '/' in x or '\\' in x] + \
        corpus.sample(corpus.stereo_smiles(), 70 if quick else 500, ck.seed, 'c01-chiral')
    with ChiralSpy() as cspy:
        for smi in cpool:
            try:
                m = smiles(smi)
            except Exception:
                continue
            if not n_stereo(m) or len(m) > 70:
                continue
            # a rebuilt copy (other insertion order, labels given through add_atom_stereo): registry order and stored sign
            kk = m.copy()
            try:
                if any(int(bd) == 4 for *_, bd in kk.bonds()):
                    kk.kekule()
                new, fmap, complete = rebuild(kk, rng)
            except Exception:
                complete = False
            if complete and all(a.atomic_number != 1 for _, a in kk.atoms()) and n_stereo(new) == n_stereo(kk):
                cases.append(f'same_stereo_ok {zmap(fmap)} {mol_term(kk)} {mol_term(new)} {tabs_term(kk)} {tabs_term(new)}')
                meta.append(('same-stereo', smi, str(new)))
                ck.case(('corr-same-stereo', smi, tuple(new._atoms)), nontrivial=True)
                ck.count('corr:same-stereo-hypotheses')
                tds = [(two_descriptions_case(cspy, kk, new, fmap), new, fmap)] if (not quick or ck.distribution.get('corr:two-descriptions', 0) < 90) else []
                if not quick and smi in STEREO_TIES:
                    # thorough: more insertion orders / registry listings of the molecules whose stereo refinement has to work
                    for _ in range(4):
                        try:
                            new2, fmap2, complete2 = rebuild(kk, rng)
                        except Exception:
                            continue
                        if complete2 and n_stereo(new2) == n_stereo(kk):
                            tds.append((two_descriptions_case(cspy, kk, new2, fmap2), new2, fmap2))
                for td, newx, fmapx in tds:
                    if td is None:
                        continue
                    c2, cu2, flip_free, same, flipped = td
                    cases.append(c2)
                    meta.append(('two-descriptions', smi, str(newx)))
                    ck.case(('corr-two-descriptions', smi, tuple(newx._atoms)), nontrivial=True)
                    ck.count('corr:two-descriptions' + (':pair-listed-reversed' if flipped else ''))
                    ucases.append(cu2)
                    umeta.append((smi, 'two-descriptions', flip_free, 1 if same else 0))
                    if flip_free and not same and not (gap_classes(kk) | gap_classes(newx)):
                        ck.counterexample(f'chiral-morgan-differs:rebuild:{smi}', '_chiral_morgan gives different weights (as a function of the atom) '
                                          'to two descriptions of one structure although no flip-half group was needed',
                                          {'smiles': smi, 'rebuilt': str(newx), 'mapping': fmapx}, {'kk': dict(kk._chiral_morgan), 'rebuilt': dict(newx._chiral_morgan)},
                                          'equal weights atom by atom', 'C01_chiral_morgan_two_descriptions (hypotheses evaluated in Coq)')
            if complete:
                inv = {v: k for k, v in fmap.items()}
                for n, a in kk._atoms.items():
                    if a.stereo is None or n not in kk.stereogenic_tetrahedrons or fmap[n] not in new.stereogenic_tetrahedrons:
                        continue
                    order = list(kk.stereogenic_tetrahedrons[n])
                    order2 = [inv[x] for x in new.stereogenic_tetrahedrons[fmap[n]]]
                    if sorted(order) != sorted(order2) or new._atoms[fmap[n]].stereo is None:
                        continue
                    q = [order.index(x) for x in order2]
                    cases.append(f'reord_ok {b(len(order) == 3)} {lst(q, zraw)} {b(a.stereo)} {b(new._atoms[fmap[n]].stereo)}')
                    meta.append(('reordered-label', smi, n, q))
                    ck.case(('corr-reord', smi, n, tuple(q)), nontrivial=q != sorted(q))
                    ck.count('corr:reordered-label:' + ('identity' if q == sorted(q) else 'permuted'))
            v2 = corpus.renumber(m, rng)
            cases.append(f'remap_ok {zmap(dict(zip(m._atoms, v2._atoms)))} {mol_term(m)} {mol_term(v2)} {tabs_term(m)} {tabs_term(v2)}')
            meta.append(('remap-registries', smi))
            ck.case(('corr-remap', smi, tuple(v2._atoms)), nontrivial=True)
            ck.count('corr:remap-registries')
            for how, v in (('as-read', m), ('renumbered', v2)):
                c, w = chiral_case(cspy, v, rng)
                if c is None:
                    ck.count('corr:chiral:skipped')
                    continue
                cases.append(c)
                meta.append(('chiral', how, smi, len(cspy.trace)))
                if cspy.last_states_case:
                    cases.append(cspy.last_states_case[0])
                    meta.append(('chiral-states', how, smi, cspy.last_states_case[1]))
                    ck.case(('corr-chiral-states', smi, how, tuple(v._atoms)), nontrivial=cspy.last_states_case[1] > 0)
                    ck.count(f'corr:chiral-states:differentiation-calls={min(cspy.last_states_case[1], 3)}')
                if cspy.last_order_cases:
                    co, cu, flip_free, several, ncalls = cspy.last_order_cases
                    cases.append(co)
                    meta.append(('chiral-order', how, smi, flip_free))
                    ck.case(('corr-chiral-order', smi, how, tuple(v._atoms)), nontrivial=several)
                    ck.count('corr:chiral-order:' + ('no-flip-groups' if flip_free else 'flip-half-used'))
                    ucases.append(cu)
                    umeta.append((smi, how, flip_free, ncalls))
                ck.case(('corr-chiral', smi, how, tuple(v._atoms)), nontrivial=True)
                ck.count(f'corr:chiral:morgan-calls={min(len(cspy.trace), 3)}')
                if w is not None and w is not v.atoms_order and dict(w) != dict(v.atoms_order):
                    ck.count('corr:chiral:weights-differ-from-atoms_order')
    # the two hash models against the interpreter on random tuples (boundaries of the int hash included)
    edge = [0, 1, -1, -2, (1 << 61) - 1, (1 << 61) - 2, 1 << 61, -(1 << 61) + 1, -(1 << 61), (1 << 63) - 1, -(1 << 63), 1 << 63, 1 << 64, -(1 << 64) - 1]
    for i in range(150 if quick else 2000):
        t = tuple((rng.choice(edge) if rng.random() < .3 else rng.randint(-(1 << 63), (1 << 63) - 1)) for _ in range(rng.randint(0, 9)))
        cases.append(f'h_ok {lst(t, zraw)} {zraw(hash(t))}')
        meta.append(('hash', t, hash(t)))
        ck.case(('hash', t))
        ck.count('corr:hash-tuple')
    ok, failing, log = run_cases('c01', 'PyHash', cases, extra=COQ_EXTRA, shard=100)
    ck.oblige('correspondence: hash(atom), int_adjacency, _morgan (labels of the last round, result, KeyError), atoms_order, _chiral_morgan '
              '(weights + every _morgan input), start atom and first child of the writer == Coq model (exact ints, CPython tuple hash model)', ok and not failing, 'correspondence', log or repr([meta[i] for i in failing[:5]]))
    ck.extra['correspondence_cases'] = len(cases)
    gok, gfail, glog = run_cases('c01g', 'PyHash', gcases, extra=COQ_EXTRA_GEN, shard=100)
    ck.oblige('correspondence: the functions translated from the source (g_morgan, g_morgan_labels, g_atoms_order of coq/gen/MorganBody.v) == '
              'the implementation on raw dicts (malformed included) and molecules', gok and not gfail, 'correspondence', glog or repr([gmeta[i] for i in gfail[:5]]))
    ck.extra['translated_source_cases'] = len(gcases)
    if not (gok and not gfail):
        failing = list(failing) + [len(meta) + i for i in gfail]
        meta = meta + gmeta
        ok = ok and gok
        log = (log or '') + (glog or '')
    # how often the hypothesis of C01_chiral_morgan_order_independent holds on real molecules (uniform run of the model == no
    # flip-half group in the real run); a mismatch is a coverage statement, not a failure of the code
    uok, ufail, ulog = run_cases('c01u', 'PyHash', ucases, extra=COQ_EXTRA, shard=100)
    if uok:
        fs = set(ufail)
        for i, (smi, how, flip_free, ncalls) in enumerate(umeta):
            if how == 'two-descriptions':
                ck.count('corr:two-descriptions:' + (('hypotheses-established' if flip_free else 'not-uniform(flip-half)') if i not in fs
                                                       else ('hypotheses-not-established' if flip_free else 'established-though-flip-half')))
                continue
            if i in fs:
                ck.count('corr:chiral-order:hypothesis-differs-from-no-flip-groups')
            elif flip_free:
                ck.count('corr:chiral-order:uniform-run-established' + (':with-refinement-pass' if ncalls else ':no-refinement-needed'))
            else:
                ck.count('corr:chiral-order:not-uniform(flip-half)')
        ck.extra['uniform_run_cases'] = len(ucases)
    else:
        ck.unchecked('uniform_run_b could not be evaluated on the real molecules', ulog[-500:])
    ck.sample({'model_call': cases[0][:600], 'meta': repr(meta[0])[:300]})
    ck.sample({'model_call': cases[-200][:600], 'meta': repr(meta[-200])[:300]})
    bad = [meta[i] for i in failing]
    return ok and not failing, bad, log, suspects


def directed(ck, bad, suspects):
    """the correspondence broke: look for a concrete failing input of the real code on and around the disagreeing inputs
    (many renumberings / rebuilds / re-spellings of the molecules involved, and the fixed seed list at higher volume)"""
    rng = random.Random(f'{ck.seed}:c01-directed')
    S = Searcher(ck)
    seeds = [mt[2] for mt in bad if mt and mt[0] == 'mol' and mt[2]] + list(suspects)
    seen = []
    for smi in seeds:
        if smi not in seen:
            seen.append(smi)
    for smi in seen[:40] + SPECIAL + COORD + EZ_TIES:
        S.one(smi, rng, n_renum=12, n_spell=6, n_rdkit=4)
    for smi in corpus.sample(corpus.lipo(), 200, ck.seed, 'c01-directed'):
        S.one(smi, rng, n_renum=4, n_spell=2, n_rdkit=2)


def run(ck):
    ck.trusted += ['translators tools/gen_elements.py, gen_stereo.py (regenerated here) and gen_smiles_tables.py (regenerated by the C02 check; no C01 theorem depends on table contents)',
                   'correspondence runner harness/checks/C01.py + harness/coqcases.py + harness/coqmol.py (prints live molecules as Coq terms)',
                   'CachedMethods shim harness/boot.py', 'CPython 3.12.1', 'Coq primitive 63-bit integers under vm_compute (model/MorganFast.v)',
                   'RDKit 2026.3 and the own colour-refinement oracle (search only)']
    ck.assumptions += [
        'theorems are about coq/model/Morgan.v (model of _morgan / atoms_order / Element.__hash__ / Bond.__hash__), for every hash function h; '
        'tie = (1) the model is proved equal to coq/gen/MorganBody.v, the statement-by-statement translation of the source regenerated on every '
        'run (tools/gen_morganbody.py; what the Python constructs of the fragment mean is the fixed prelude of that file), (2) exact '
        'correspondence of model AND translated function with h := CPython tuple hash (Uint63 implementation hash63, also compared with '
        'PyHash.hash_ztuple)',
        'ring membership (atom.in_ring) is an input of the model (ring perception is C06)',
        'writer theorems are about coq/model/Writer.v (C02 ties it at volume; here its start atom, first child and, on small molecules, '
        'the whole canonical string / order are re-tied; its sort keys key_start / key_child_at are proved to be the keys translated from '
        'the source of _smiles, tools/gen_smileskeys.py): invariance of the written text under remap() is proved for injective weights when '
        'no stereo mark is written, and conditionally on the agreement of _format_atom/_format_bond otherwise; insertion-order changes, weight '
        'ties and the stereo refinement _chiral_morgan/__differentiation are covered by the search only',
        'canonical string / hash of str are opaque in the eq/hash theorems']
    ck.extra['rule'] = (
        'correspondence: random raw dicts for _morgan (well-formed, ghost neighbours/rows, missing rows, asymmetric, boundary labels), every '
        'molecule of a fixed list + corpus sample + random small molecules built through the API, each as read, renumbered (labels of the last '
        'round compared too) and with shuffled insertion order; random int tuples for the hash; non-trivial = result is Ok on more than '
        '2 atoms. search: each molecule renumbered x2, rebuilt through add_atom/add_bond/add_*_stereo in another order (Kekule form and '
        'after thiele), re-spelled by format(m,"r") x2 and by RDKit (aromatic and Kekule spelling, kekule+thiele on both sides) -> str, ==, '
        'hash; long chains / macrocycles / oligomers (36-90 atoms) and stereo allenes (12 random spellings each, all spellings of one '
        'configuration by the OpenSMILES extended-tetrahedral rule judged by RDKit on the tetrahedral analogue) and a generated family of labelled centres with an explicit hydrogen atom as well; '
        'written-string oracles on every molecule: smiles(str(m)) == m, a spelling that STARTS at each labelled centre (writer driven by weights that put it first) reads back as m, '
        'RDKit judges input vs written strings (constitution + number of labels equal, canonical isomeric SMILES and chirality-aware matching both differ -> alarm); atoms_order against an own exact colour refinement; non-trivial = more than one atom. Members of the documented gap classes '
        '(own symmetry oracle) are judged on the stereo-free string only; the bond-order-tie class (annulenes with localised bonds, fixed by 2e3e6bb) is judged in full.')
    import time
    t0 = time.time()
    # gen/SmilesTables.v (C02's translator, which also guards the READER's atom regex) is used as C02's check regenerates it: no C01
    # theorem depends on the content of a table, and the writer tables are tied here by the whole-string writer correspondence
    proved = common.standard_proof_steps(ck, translators=['elements', 'stereo', 'morganconsts', 'morganbody', 'smileskeys', 'atomstereo'], extra_targets=['model/MorganFast.vo', 'model/ChiralMorgan.vo'])
    t1 = time.time()
    tied, bad, log, suspects = correspondence(ck)
    t2 = time.time()
    S = search(ck)
    ck.extra['wall_split_s'] = {'proof_steps': round(t1 - t0, 1), 'correspondence': round(t2 - t1, 1), 'search': round(time.time() - t2, 1)}
    if not tied or suspects:
        directed(ck, bad, suspects)
        if not tied:
            kinds = sorted({x[0] for x in bad if x}) or ['cases file did not evaluate']
            where = {'raw': '_morgan on raw dicts', 'mol': 'hash(atom) / int_adjacency / atoms_order of molecules', 'hash': 'tuple hash model',
                     'writer-keys': 'start atom / first child of _smiles', 'chiral': '_chiral_morgan / __differentiation (weights, _morgan inputs)',
                     'remap-registries': 'remap() = ren_mol and its stereo registries = renamed registries',
                     'insertion-order': 'renumbered + shuffled molecule is mol_perm of ren_mol, both well-formed',
                     'reordered-label': 'rebuilt molecule: stored tetrahedral sign = old sign xor parity of the registry re-ordering',
                     'same-stereo': 'rebuilt molecule satisfies same_atom_stereo / same_ct_stereo (hypotheses of C01_smiles_invariant_discrete)', 'writer': 'canonical string and order of _smiles (writer model)'}
            ck.unchecked('correspondence model vs implementation: ' + '; '.join(where.get(k, k) for k in kinds), log[-1500:],
                         [repr(x)[:400] for x in bad[:20]])
    ck.extra['proved'] = proved
    ck.extra['tied'] = tied
