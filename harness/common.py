"""Common machinery of every check: regeneration of generated Coq files, Coq build under a lock and a
timeout, Print-Assumptions audit, in-Coq evaluation of correspondence cases, evidence / replay writing,
known-findings matching.  See DESIGN.md section 2."""
import fcntl
import hashlib
import json
import os
import threading
import re
import subprocess
import sys
import time

VERIF = os.path.dirname(os.path.dirname(os.path.abspath(__file__)))
REPO = os.environ.get('VERIF_REPO', '/repo')
COQ = os.path.join(VERIF, 'coq')
if os.path.realpath(REPO) != '/repo':
    # a check against a scratch copy of the repository works on a private copy of the Coq tree, so that the
    # generated tables of the mutated tree never disturb /verif/coq
    COQ = '/tmp/verif_coq_' + hashlib.blake2b(os.path.realpath(REPO).encode(), digest_size=5).hexdigest()
    subprocess.run(['rsync', '-a', '--delete', '--exclude', 'cases/', os.path.join(VERIF, 'coq') + '/', COQ + '/'], check=True)
    for _f in ('Makefile', 'Makefile.conf', '.Makefile.d'):
        try:
            os.remove(os.path.join(COQ, _f))
        except OSError:
            pass
os.environ['VERIF_COQ'] = COQ
# evidence / replays of a run against a scratch copy never overwrite those of /repo itself
OUT = VERIF if os.path.realpath(REPO) == '/repo' else COQ
sys.path.insert(0, os.path.join(VERIF, 'tools'))
sys.path.insert(0, os.path.join(VERIF, 'harness'))

FORBIDDEN = re.compile(r'\b(Admitted|admit|Axiom|Axioms|Parameter|Parameters|Conjecture|Conjectures|'
                       r'Admit Obligations|give_up)\b|Unset Guard|bypass_check|type-in-type|impredicative-set|'
                       r'Unset Positivity|Unset Universe')

KERNEL_TB = ['Coq 8.16.1 kernel (coqc, full .vo build, vm_compute used for finite sweeps; no native_compute)']


class Lock:
    def __init__(self, name='coq'):
        self.path = os.path.join(COQ, f'.{name}.lock')

    def __enter__(self):
        self.f = open(self.path, 'w')
        fcntl.flock(self.f, fcntl.LOCK_EX)
        return self

    def __exit__(self, *a):
        fcntl.flock(self.f, fcntl.LOCK_UN)
        self.f.close()


def run(cmd, timeout, cwd=None, env=None, input=None):
    """run a command under a hard timeout; returns (rc, output) ; rc 124 on timeout"""
    e = dict(os.environ)
    if env:
        e.update(env)
    try:
        p = subprocess.run(cmd, cwd=cwd, env=e, input=input, stdout=subprocess.PIPE, stderr=subprocess.STDOUT,
                           timeout=timeout, text=True, shell=isinstance(cmd, str))
        return p.returncode, p.stdout
    except subprocess.TimeoutExpired as ex:
        out = ex.stdout or ''
        if isinstance(out, bytes):
            out = out.decode(errors='replace')
        return 124, out + f'\nTIMEOUT after {timeout}s: {cmd}\n'


# ---------------------------------------------------------------------------------------------
# regeneration + build

def regenerate(which=None):
    """run the translators; returns list of (translator, error) for those that failed closed"""
    import importlib
    from coqfmt import TranslatorError
    failed = []
    import gen_all
    importlib.reload(gen_all)
    for name, fn in gen_all.TRANSLATORS.items():
        if which is not None and name not in which:
            continue
        try:
            fn(REPO)
        except TranslatorError as e:
            failed.append((name, str(e)))
        except Exception as e:  # unexpected source shape: still fail closed
            failed.append((name, f'{type(e).__name__}: {e}'))
    return failed


def ensure_makefile():
    mk = os.path.join(COQ, 'Makefile')
    proj = os.path.join(COQ, '_CoqProject')
    # _CoqProject lists every .v file of the development (generated ones included)
    files = []
    for d in ('gen', 'model', 'proofs', 'props'):
        for f in sorted(os.listdir(os.path.join(COQ, d))):
            if f.endswith('.v'):
                files.append(f'{d}/{f}')
    text = '-Q gen Gen\n-Q model Model\n-Q proofs Proofs\n-Q props Props\n-arg -w -arg -notation-overridden,-deprecated-hint-without-locality,-deprecated-instance-without-locality\n' + '\n'.join(files) + '\n'
    changed = True
    try:
        changed = open(proj).read() != text
    except FileNotFoundError:
        pass
    if changed:
        with open(proj, 'w') as f:
            f.write(text)
    if changed or not os.path.exists(mk):
        rc, out = run(['coq_makefile', '-f', '_CoqProject', '-o', 'Makefile'], 60, cwd=COQ)
        if rc:
            raise RuntimeError('coq_makefile failed: ' + out)


def coq_make(targets, timeout=900, jobs=None):
    """full .vo build of the targets (never -vos). returns (ok, log)"""
    jobs = jobs or min(16, os.cpu_count() or 4)
    with Lock():
        ensure_makefile()
        rc, out = run(['make', f'-j{jobs}'] + targets, timeout, cwd=COQ)
    return rc == 0, out


def failing_file(log):
    m = re.search(r'File "\./([^"]+)", line (\d+), characters', log)
    if m:
        return f'{m.group(1)}:{m.group(2)}'
    m = re.search(r'make.*\*\*\* \[.*?: ([^\]]+)\]', log)
    return m.group(1) if m else 'unknown'


def failing_lemma(log):
    """name of the first lemma whose proof failed, found by locating the error line in the file"""
    m = re.search(r'File "\./([^"]+)", line (\d+), characters', log)
    if not m:
        return None
    path = os.path.join(COQ, m.group(1))
    try:
        lines = open(path).read().split('\n')
    except OSError:
        return None
    for i in range(int(m.group(2)) - 1, -1, -1):
        mm = re.match(r'\s*(Theorem|Lemma|Corollary|Example|Definition|Fact|Remark|Proposition)\s+([\w\']+)', lines[i] if i < len(lines) else '')
        if mm:
            return mm.group(2)
    return None


def coq_closure(pid):
    """the .v files props/<pid>.v depends on (transitively), found from their `From <Lib> Require ...` lines"""
    libs = {'Gen': 'gen', 'Model': 'model', 'Proofs': 'proofs', 'Props': 'props', 'Cases': 'cases'}
    todo = [os.path.join('props', pid + '.v')]
    seen = []
    while todo:
        f = todo.pop()
        if f in seen:
            continue
        path = os.path.join(COQ, f)
        if not os.path.exists(path):
            continue
        seen.append(f)
        txt = strip_comments(open(path).read())
        for m in re.finditer(r'From\s+(\w+)\s+Require\s+(?:Import|Export)?\s*([^.]*)\.', txt):
            if m.group(1) in libs:
                for name in m.group(2).split():
                    todo.append(os.path.join(libs[m.group(1)], name + '.v'))
    return sorted(seen)


def forbidden_scan(pid=None):
    """no Admitted/admit/Axiom/... anywhere in the files the property's theorems depend on (comments stripped)"""
    hits = []
    if pid is not None:
        files = coq_closure(pid)
    else:
        files = [os.path.join(d, f) for d in ('gen', 'model', 'proofs', 'props') for f in sorted(os.listdir(os.path.join(COQ, d))) if f.endswith('.v')]
    for rel in files:
        txt = strip_comments(open(os.path.join(COQ, rel)).read())
        for i, line in enumerate(txt.split('\n'), 1):
            if FORBIDDEN.search(line):
                hits.append(f'{rel}:{i}: {line.strip()[:100]}')
    return hits


def strip_comments(txt):
    out = []
    depth = 0
    i = 0
    instr = False
    while i < len(txt):
        if not instr and txt.startswith('(*', i):
            depth += 1
            i += 2
            continue
        if not instr and depth and txt.startswith('*)', i):
            depth -= 1
            i += 2
            continue
        c = txt[i]
        if depth == 0:
            if c == '"':
                instr = not instr
            out.append(c)
        elif c == '\n':
            out.append(c)
        i += 1
    return ''.join(out)


def props_audit(pid):
    """Re-run coqc on props/<pid>.v (a tiny file: Theorem / exact / Print Assumptions) and collect, per theorem,
    the assumptions the kernel reports.  returns (ok, theorems:list[{name, assumptions}], log)"""
    path = os.path.join(COQ, 'props', pid + '.v')
    src = strip_comments(open(path).read())
    names = re.findall(r'^\s*(?:Theorem|Corollary)\s+([\w\']+)', src, re.M)
    printed = re.findall(r'^\s*Print Assumptions\s+([\w\']+)\s*\.', src, re.M)
    with Lock():
        rc, out = run(['coqc', '-Q', 'gen', 'Gen', '-Q', 'model', 'Model', '-Q', 'proofs', 'Proofs', '-Q', 'props', 'Props',
                       '-w', '-notation-overridden,-deprecated-hint-without-locality,-deprecated-instance-without-locality',
                       f'props/{pid}.v'], 600, cwd=COQ)
    if rc:
        return False, [], out
    # split output into blocks, one per Print Assumptions, in order
    blocks = re.split(r'(?=^Closed under the global context|^Axioms:)', out, flags=re.M)
    blocks = [bk for bk in blocks if bk.startswith('Closed under') or bk.startswith('Axioms:')]
    res = []
    ok = len(blocks) == len(printed) and set(printed) >= set(names)
    for nm, bk in zip(printed, blocks):
        if bk.startswith('Closed'):
            res.append({'name': nm, 'assumptions': []})
        else:
            ax = re.findall(r'^([\w\.\']+)\s*:', bk[len('Axioms:'):], re.M)
            res.append({'name': nm, 'assumptions': ax})
    return ok, res, out


def allowed_assumptions():
    path = os.path.join(COQ, 'ASSUMPTIONS.txt')
    allowed = set()
    if os.path.exists(path):
        for line in open(path):
            line = line.split('#')[0].strip()
            if line:
                allowed.add(line)
    return allowed


_IMPORTS_BUILT = set()
_IMPORTS_LOCK = threading.Lock()


def ensure_imports_built(text):
    """A cases file may import modules that are not in the dependency closure of props/Cxx.vo (trace models, state tables):
    on a fresh tree nothing has built them yet.  Build the .vo of every development module the text requires, once per process."""
    libs = {'Gen': 'gen', 'Model': 'model', 'Proofs': 'proofs', 'Props': 'props'}
    targets = []
    for m in re.finditer(r'From\s+(Gen|Model|Proofs|Props)\s+Require\s+(?:Import\s+|Export\s+)?([^.]*)\.', text):
        for mod in m.group(2).split():
            rel = f'{libs[m.group(1)]}/{mod}'
            if os.path.exists(os.path.join(COQ, rel + '.v')):
                targets.append(rel + '.vo')
    with _IMPORTS_LOCK:
        todo = [t for t in dict.fromkeys(targets) if t not in _IMPORTS_BUILT]
        if not todo:
            return True, ''
        ok, log = coq_make(todo, timeout=1800)
        if ok:
            _IMPORTS_BUILT.update(todo)
        return ok, log[-3000:]


def coq_eval(name, text, timeout=600):
    """compile a generated cases file (coq/cases/<name>.v) and return (ok, stdout)"""
    d = os.path.join(COQ, 'cases')
    os.makedirs(d, exist_ok=True)
    path = os.path.join(d, name + '.v')
    with open(path, 'w') as f:
        f.write(text)
    built_ok, built_log = ensure_imports_built(text)
    if not built_ok:
        return False, built_log
    rc, out = run(f'ulimit -s unlimited 2>/dev/null; coqc -Q gen Gen -Q model Model -Q proofs Proofs -Q props Props -Q cases Cases '
                  f'-w -notation-overridden cases/{name}.v', timeout, cwd=COQ)
    for ext in ('.vo', '.vok', '.vos', '.glob'):
        try:
            os.remove(os.path.join(d, name + ext))
        except OSError:
            pass
    try:
        os.remove(os.path.join(d, '.' + name + '.aux'))
    except OSError:
        pass
    return rc == 0, out


def parse_nat_list(out, marker):
    """extract `= [a; b; c]` following a `(* marker *)`-less Eval: we print with a definition name"""
    m = re.search(re.escape(marker) + r'\s*=\s*(\[[^\]]*\]|nil)', out.replace('\n', ' '))
    if not m:
        return None
    body = m.group(1)
    if body == 'nil' or body == '[]':
        return []
    return [int(x.replace('%nat', '').replace('%Z', '').replace('%N', '').strip('() ')) for x in body.strip('[]').split(';') if x.strip()]


# ---------------------------------------------------------------------------------------------
# known findings / violations / evidence

def load_known():
    """known_findings.json (+ known_findings.d/*.json fragments, same format)"""
    out = []
    paths = [os.path.join(VERIF, 'known_findings.json')]
    d = os.path.join(VERIF, 'known_findings.d')
    if os.path.isdir(d):
        paths += [os.path.join(d, f) for f in sorted(os.listdir(d)) if f.endswith('.json')]
    for path in paths:
        try:
            out.extend(json.load(open(path))['findings'])
        except FileNotFoundError:
            pass
    return out


class Check:
    """state of one check run"""

    def __init__(self, pid, tier, seed):
        self.pid = pid
        self.tier = tier
        self.seed = seed
        self.t0 = time.time()
        self.level = 'proof'
        self.obligations = []      # list of dict(name, kind, ok, detail)
        self.samples = []
        self.evaluations = 0
        self.distinct = set()
        self.distribution = {}
        self.assumptions = []
        self.trusted = list(KERNEL_TB)
        self.violations = []       # list of (replay path, no_input:bool)
        self.known_hits = []
        self.extra = {}
        self.checker_cmd = f'./check {pid} --{tier}'
        self.known = [k for k in load_known() if k.get('property') == pid and k.get('status') == 'known']
        rd = os.path.join(OUT, 'replays')
        if os.path.isdir(rd):
            for f in os.listdir(rd):
                if f.startswith(pid + '-'):
                    os.remove(os.path.join(rd, f))
        self.broken = []           # obligations / correspondences that no longer check: (name, detail, disagreeing cases)

    # ---- obligations
    def oblige(self, name, ok, kind='theorem', detail=''):
        self.obligations.append({'name': name, 'kind': kind, 'ok': bool(ok), 'detail': detail[:2000]})
        return ok

    def count(self, key, n=1):
        self.distribution[key] = self.distribution.get(key, 0) + n

    def case(self, token, nontrivial=True):
        """record one explored case; token identifies it for the distinct count"""
        self.evaluations += 1
        if nontrivial:
            self.distinct.add(hashlib.blake2b(repr(token).encode(), digest_size=8).digest())

    def sample(self, x, limit=8):
        if len(self.samples) < limit:
            self.samples.append(x)

    # ---- reporting
    def match_known(self, key):
        for k in self.known:
            if k.get('key') == key:
                return k
        return None

    def counterexample(self, key, what, input, observed, expected, oracle, replay_py=None):
        """a concrete input on which the real code breaks the property"""
        k = self.match_known(key)
        if k is not None:
            if key not in self.known_hits:
                self.known_hits.append(key)
                print(f'KNOWN-FINDING: property={self.pid} {k.get("what", what)}')
            return False
        h = hashlib.blake2b((self.pid + key).encode(), digest_size=6).hexdigest()
        path = os.path.join(OUT, 'replays', f'{self.pid}-{h}.json')
        os.makedirs(os.path.dirname(path), exist_ok=True)
        with open(path, 'w') as f:
            json.dump({'property': self.pid, 'kind': 'counterexample', 'key': key, 'what': what, 'input': input,
                       'observed': observed, 'expected': expected, 'oracle': oracle, 'seed': self.seed,
                       'replay_py': replay_py,
                       'replay_cmd': f'./check {self.pid} --replay {path}'}, f, indent=1, default=repr)
        if not any(p == path for p, _ in self.violations):
            self.violations.append((path, False))
        return True

    def unchecked(self, name, detail, cases=None):
        """a theorem / translator / correspondence that no longer checks"""
        self.broken.append((name, detail, cases or []))

    def finish(self):
        # obligations that broke without a concrete failing input
        have_concrete = any(not ni for _, ni in self.violations)
        if self.broken and not have_concrete:
            name, detail, cases = self.broken[0]
            h = hashlib.blake2b((self.pid + name).encode(), digest_size=6).hexdigest()
            path = os.path.join(OUT, 'replays', f'{self.pid}-unchecked-{h}.json')
            os.makedirs(os.path.dirname(path), exist_ok=True)
            with open(path, 'w') as f:
                json.dump({'property': self.pid, 'kind': 'unchecked-obligation',
                           'no_longer_checks': [{'name': n, 'detail': d[:4000], 'cases': c[:20]} for n, d, c in self.broken],
                           'seed': self.seed,
                           'note': 'the property is no longer shown to hold; the directed search found no failing input'},
                          f, indent=1, default=repr)
            self.violations.append((path, True))
        n_obl = len(self.obligations)
        n_ok = sum(1 for o in self.obligations if o['ok'])
        cov = {
            'obligations': n_obl, 'discharged': n_ok,
            'checker_cmd': self.checker_cmd,
            'trusted_base': self.trusted,
            'evaluations': self.evaluations, 'distinct_nontrivial': len(self.distinct),
            'rule': self.extra.pop('rule', ''),
            'samples': self.samples or ['(no samples)'],
            'obligation_list': [{'name': o['name'], 'kind': o['kind'], 'ok': o['ok']} for o in self.obligations],
            'failed_obligations': [o for o in self.obligations if not o['ok']],
            'input_distribution': self.distribution,
            'known_findings_hit': self.known_hits,
        }
        cov.update(self.extra)
        ev = {'property_id': self.pid, 'tier': self.tier, 'seed': self.seed, 'level': self.level,
              'coverage': cov, 'assumptions': self.assumptions, 'wall_s': round(time.time() - self.t0, 2),
              'violations': len(self.violations)}
        os.makedirs(os.path.join(OUT, 'evidence'), exist_ok=True)
        with open(os.path.join(OUT, 'evidence', self.pid + '.json'), 'w') as f:
            json.dump(ev, f, indent=1, default=repr)
        for path, no_input in self.violations[:3]:
            print(f'VIOLATION property={self.pid} replay={path}' + (' no-failing-input-found' if no_input else ''))
        sys.stdout.flush()
        return 1 if self.violations else 0


def standard_proof_steps(ck, translators=None, extra_targets=()):
    """steps 1-2 of DESIGN section 2: regenerate, build props/<pid>.vo, audit. Returns True when all proof
    obligations checked."""
    pid = ck.pid
    ok_all = True
    failed = regenerate(translators)
    for name, err in failed:
        ck.oblige(f'translator:{name}', False, 'translator', err)
        ck.unchecked(f'translator {name}', f'tie-broken: {err}')
        ok_all = False
    if failed:
        return False
    ok, log = coq_make([f'props/{pid}.vo'] + list(extra_targets))
    if not ok:
        where = failing_file(log)
        lemma = failing_lemma(log)
        ck.oblige(f'build:props/{pid}.vo', False, 'build', log[-3000:])
        ck.unchecked(f'theorem {lemma or "?"} ({where})', log[-3000:])
        ck.extra['failed_lemma'] = lemma
        ck.extra['failed_at'] = where
        return False
    hits = forbidden_scan(pid)
    ck.extra['coq_files'] = coq_closure(pid)
    ck.oblige('no Admitted/admit/Axiom/Parameter/Conjecture/disabled checks in the development', not hits, 'audit',
              '\n'.join(hits))
    if hits:
        ck.unchecked('forbidden construct', '\n'.join(hits))
        ok_all = False
    ok, thms, log = props_audit(pid)
    if not ok:
        ck.oblige(f'audit:props/{pid}.v', False, 'audit', log[-2000:])
        ck.unchecked(f'Print Assumptions audit of props/{pid}.v', log[-2000:])
        return False
    allowed = allowed_assumptions()
    for t in thms:
        bad = [a for a in t['assumptions'] if a not in allowed]
        ck.oblige(t['name'], not bad, 'theorem',
                  'closed under the global context' if not t['assumptions'] else 'assumptions: ' + ', '.join(t['assumptions']))
        if bad:
            ck.unchecked(f'theorem {t["name"]} depends on unlisted axioms', ', '.join(bad))
            ok_all = False
    ck.extra['theorems'] = [t['name'] + ('' if not t['assumptions'] else ' [' + ','.join(t['assumptions']) + ']') for t in thms]
    if ck.tier == 'thorough':
        # independent re-check of the compiled files and everything they depend on
        with Lock():
            rc, out = run(['coqchk', '-o', '-Q', 'gen', 'Gen', '-Q', 'model', 'Model', '-Q', 'proofs', 'Proofs', '-Q', 'props', 'Props',
                           f'Props.{pid}'], 3000, cwd=COQ)
        sections = {}
        cur = None
        for line in out.split('\n'):
            mm = re.match(r'\* ([^:]+):\s*(.*)$', line.strip())
            if mm:
                cur = mm.group(1).strip()
                sections[cur] = [mm.group(2).strip()] if mm.group(2).strip() else []
            elif cur is not None and line.strip():
                sections[cur].append(line.strip())
        def items(key):
            return [x for x in sections.get(key, ['?']) if x != '<none>']
        axioms = items('Axioms')
        bad_ax = [a for a in axioms if a.split()[0] not in allowed]
        okc = rc == 0 and 'Modules were successfully checked' in out and 'Axioms' in sections and not bad_ax and \
            not items('Constants/Inductives relying on type-in-type') and not items('Constants/Inductives relying on unsafe (co)fixpoints') and \
            not items('Inductives whose positivity is assumed')
        ck.oblige(f'coqchk -o Props.{pid}: modules re-checked, no unlisted axioms, no type-in-type / unsafe fixpoints / assumed positivity', okc, 'coqchk', out[-1500:])
        ck.extra['coqchk_axioms'] = axioms
        if not okc:
            ck.unchecked(f'coqchk of Props.{pid}', out[-1500:])
            ok_all = False
    return ok_all


def generic_replay(path):
    """./check Cxx --replay <file>: re-run the recorded input on the real code and show what it does now"""
    d = json.load(open(path))
    print(json.dumps({k: d.get(k) for k in ('property', 'kind', 'what', 'input', 'observed', 'expected', 'oracle')}, indent=1, default=repr))
    code = d.get('replay_py')
    if code:
        print('--- replaying on /repo ---')
        rc, out = run(['/venv/bin/python', '-c', 'import boot\n' + code], 600)
        print(out)
        return rc
    return 0
