"""Corpora shipped with /repo and deterministic sampling."""
import csv
import os
import random

import common

_cache = {}


def lipo():
    if 'lipo' not in _cache:
        with open(os.path.join(common.REPO, 'pach/lipophilicity.csv')) as f:
            _cache['lipo'] = [r['smiles'] for r in csv.DictReader(f)]
    return _cache['lipo']


def sample(seq, n, seed, salt=''):
    rng = random.Random(f'{seed}:{salt}')
    seq = list(seq)
    if n >= len(seq):
        return seq
    return rng.sample(seq, n)


def stereo_smiles():
    return [s for s in lipo() if '@' in s or '/' in s or '\\' in s]


def renumber(mol, rng):
    """random renumbering of a molecule (new object)"""
    nums = list(mol._atoms)
    perm = nums[:]
    rng.shuffle(perm)
    new = mol.copy()
    new.remap(dict(zip(nums, perm)))
    return new
