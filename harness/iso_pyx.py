"""No Cython in this sandbox: chython/algorithms/_isomorphism.pyx is transpiled to Python at RUN TIME from the current
source text and injected as `chython.algorithms._isomorphism`, so that the library's own `_cython=True` path of
QueryIsomorphism.get_mapping runs end to end (encoders of isomorphism.py -> buffers -> the mask DFS of the .pyx).

The transpilation is line oriented and FAIL CLOSED: every line must match one of the patterns below and every expression
may only use declared names, struct fields and a small operator set; anything else raises Unsupported (= tie broken).
C semantics that are kept:
  * `cdef packed struct` declarations become struct.Struct views ('<' = packed, little endian) over the byte buffers with
    exactly the declared field order and widths (unsigned long long = Q, unsigned int = I); reads outside the buffer raise;
  * stores into `unsigned int` / `unsigned long long` variables and array cells wrap to 32 / 64 bits, `bint` cells hold
    bool;
  * PyMem_Malloc arrays become fixed-size lists of POISON cells: reading a cell that was never written, or indexing
    outside the allocated size (a heap overflow in C) raises MemoryFault;
  * `_PyDict_NewPresized(n)` -> `{}`; PyMem_Free marks the array freed (use after free raises).
The generated text is kept under build/pyx/_isomorphism.py for inspection."""
import os
import re
import struct
import sys
import types


class Unsupported(Exception):
    """the .pyx source has a shape the transpiler does not recognise (fail closed)"""


class MemoryFault(Exception):
    """the transpiled C code read uninitialised memory or accessed memory outside an allocation"""


CTYPES = {'unsigned long long': ('Q', 64), 'unsigned int': ('I', 32), 'bint': ('?', 1)}

RUNTIME = '''
import struct as _struct
from iso_pyx import MemoryFault

MAX_WRITTEN = {}
ALLOCATED = {}
TRACE = None            # set to a list by the harness to record the state at the top of every loop iteration

def _trace(n, depth, path, path_size, matched, closures, stack):
    """(popped atom, depth, path[0..path_size), atoms whose matched flag is set, entries left on the stack, closures all zero)"""
    if TRACE is not None:
        TRACE.append((n, depth, list(path.a[:path_size]), [i for i, v in enumerate(matched.a) if v is True], stack,
                      all(v == 0 for v in closures.a)))

class _Poison:
    def __repr__(self): return 'POISON'
_P = _Poison()

def _u32(v): return int(v) & 0xffffffff
def _u64(v): return int(v) & 0xffffffffffffffff

class _Rec:
    __slots__ = ()

def _rec_class(name, fields):
    return type(name, (), {'__slots__': tuple(fields), '__repr__': lambda s: name + repr(tuple(getattr(s, f) for f in fields))})

class _View:
    """T* pointing into a byte buffer: v[i] copies the i-th packed record out (value semantics, as `x = ptr[i]` in C)"""
    def __init__(self, buf, off, st, cls, fields):
        self.buf = buf; self.off = off; self.st = st; self.cls = cls; self.fields = fields
    def __getitem__(self, i):
        o = self.off + i * self.st.size
        if i < 0 or o + self.st.size > len(self.buf):
            raise MemoryFault('read outside the buffer: record %r of %s' % (i, self.cls.__name__))
        r = self.cls()
        for f, v in zip(self.fields, self.st.unpack_from(self.buf, o)):
            setattr(r, f, v)
        return r
    def end(self, count):
        return self.off + count * self.st.size

class _Arr:
    """PyMem_Malloc(n * sizeof(T)) seen as T[n]"""
    def __init__(self, kind, n, name):
        self.kind = kind; self.a = [_P] * n; self.name = name; self.freed = False
        ALLOCATED[name] = n                                # cells the C code asked PyMem_Malloc for
    def _chk(self, i, what):
        if self.freed: raise MemoryFault('%s after free of %s' % (what, self.name))
        if i < 0 or i >= len(self.a):
            raise MemoryFault('%s outside the allocation: %s[%r], allocated %d cells' % (what, self.name, i, len(self.a)))
    def __getitem__(self, i):
        self._chk(i, 'read')
        v = self.a[i]
        if v is _P: raise MemoryFault('read of uninitialised memory %s[%d]' % (self.name, i))
        return v
    def __setitem__(self, i, v):
        if i + 1 > MAX_WRITTEN.get(self.name, 0):       # highest cell the C code tried to write (occupancy of the stack arrays)
            MAX_WRITTEN[self.name] = i + 1
        self._chk(i, 'write')
        if self.kind == 'bint': self.a[i] = bool(v)
        elif self.kind == 'unsigned int': self.a[i] = _u32(v)
        else: self.a[i] = _u64(v)
    def __bool__(self): return True                 # malloc succeeded
    def fill0(self, n):
        if n != len(self.a): raise MemoryFault('memset size %d != allocation %d of %s' % (n, len(self.a), self.name))
        self.a = [False if self.kind == 'bint' else 0] * n
    def free(self): self.freed = True

class _Desc:
    """a local descriptor struct (query_t / molecule_t)"""
    pass
'''


def _strip_comment(s):
    return s.split('#')[0].rstrip()


def transpile(src, name='_isomorphism.pyx'):
    lines = src.split('\n')
    n = len(lines)
    i = 0
    structs = {}     # name -> list of (ctype | pointer-target, field)
    out = []

    def bad(k, why):
        raise Unsupported(f'{name}:{k + 1}: {why}: {lines[k].strip()!r}')

    # ---------------------------------------------------------------- module level
    while i < n:
        raw = lines[i]
        s = _strip_comment(raw).strip()
        if not s:
            i += 1
            continue
        if s in ('cimport cython', 'from cpython.mem cimport PyMem_Malloc, PyMem_Free', 'from libc.string cimport memset'):
            i += 1
            continue
        if s == 'cdef extern from "Python.h":':
            if _strip_comment(lines[i + 1]).strip() != 'dict _PyDict_NewPresized(Py_ssize_t minused)':
                bad(i + 1, 'unexpected extern declaration')
            i += 2
            continue
        m = re.fullmatch(r'cdef packed struct (\w+):', s)
        if m:
            fields = []
            i += 1
            while i < n and (lines[i].startswith('    ') or not lines[i].strip()):
                f = _strip_comment(lines[i]).strip()
                if f:
                    mm = re.fullmatch(r'(unsigned long long|unsigned int) (\w+)', f)
                    mp = re.fullmatch(r'(\w+) \*(\w+)', f)
                    if mm:
                        fields.append((mm.group(1), mm.group(2)))
                    elif mp and mp.group(1) in structs:
                        fields.append(('*' + mp.group(1), mp.group(2)))
                    else:
                        bad(i, 'unsupported struct field')
                i += 1
            structs[m.group(1)] = fields
            continue
        if s in ('@cython.boundscheck(False)', '@cython.wraparound(False)'):
            i += 1
            continue
        if s.startswith('def '):
            break
        bad(i, 'unsupported module-level line')
    if i >= n:
        raise Unsupported(f'{name}: no def found')

    # record structs (those made of integers only) become struct.Struct views
    for sn, fields in structs.items():
        if all(t in CTYPES for t, _ in fields):
            fmt = '<' + ''.join(CTYPES[t][0] for t, _ in fields)
            fl = [f for _, f in fields]
            out.append(f'_st_{sn} = _struct.Struct({fmt!r})')
            out.append(f'_cls_{sn} = _rec_class({sn!r}, {fl!r})')
    rec_structs = {sn for sn, fields in structs.items() if all(t in CTYPES for t, _ in fields)}
    desc_structs = set(structs) - rec_structs

    # ---------------------------------------------------------------- def line (possibly continued)
    sig = _strip_comment(lines[i]).strip()
    k = i
    while sig.count('(') != sig.count(')'):
        i += 1
        sig += ' ' + _strip_comment(lines[i]).strip()
    m = re.fullmatch(r'def get_mapping\(const unsigned char\[::1\] (\w+) not None, const unsigned char\[::1\] (\w+) not None, '
                     r'const unsigned int\[::1\] (\w+) not None\):', sig)
    if not m:
        bad(k, 'unsupported signature')
    bufs = {m.group(1), m.group(2)}
    scope_name = m.group(3)
    out.append(f'def get_mapping({m.group(1)}, {m.group(2)}, {m.group(3)}):')
    i += 1

    ivars = {}        # name -> 'unsigned int' | 'unsigned long long'
    recvars = {}      # name -> record struct
    descvars = {}     # name -> descriptor struct
    arrays = {}       # name -> element ctype
    dictvars = set()
    views = {}        # 'query.atoms' -> struct

    def names_ok(expr, k):
        """every identifier of an expression must be known; operators from a small set"""
        toks = re.findall(r'[A-Za-z_]\w*|\d+|==|!=|[&+\-*()\[\].,]|\s+|.', expr)
        prev = None
        for t in toks:
            if t.isspace():
                continue
            if re.fullmatch(r'\d+', t) or t in ('==', '!=', '&', '+', '-', '*', '(', ')', '[', ']', '.', ','):
                prev = t
                continue
            if re.fullmatch(r'[A-Za-z_]\w*', t):
                if prev == '.':
                    allf = {f for fs in structs.values() for _, f in fs}
                    if t not in allf:
                        bad(k, f'unknown field {t}')
                elif t not in ivars and t not in recvars and t not in descvars and t not in arrays and t not in dictvars \
                        and t not in ('and', 'or', 'not', 'True', 'False', 'range', scope_name):
                    bad(k, f'unknown name {t}')
                prev = t
                continue
            bad(k, f'unsupported token {t!r}')
        return expr

    def wrap(var, expr):
        return f'_u32({expr})' if ivars[var] == 'unsigned int' else f'_u64({expr})'

    first_body = i
    hooks = []
    while i < n:
        raw = lines[i]
        k = i
        code = _strip_comment(raw)
        s = code.strip()
        ind = raw[:len(raw) - len(raw.lstrip())]
        i += 1
        if not s:
            continue
        if not raw.startswith('    '):
            bad(k, 'code after the function')
        # parenthesised continuation lines
        while s.count('(') != s.count(')'):
            if i >= n:
                bad(k, 'unbalanced parentheses')
            s += ' ' + _strip_comment(lines[i]).strip()
            i += 1
        # ---- declarations
        m = re.fullmatch(r'cdef (unsigned int|unsigned long long) ([\w\s,=]+)', s)
        if m:
            for d in m.group(2).split(','):
                mm = re.fullmatch(r'\s*(\w+)(?:\s*=\s*(\d+))?\s*', d)
                if not mm:
                    bad(k, 'unsupported declarator')
                ivars[mm.group(1)] = m.group(1)
                if mm.group(2) is not None:
                    out.append(f'{ind}{mm.group(1)} = {wrap(mm.group(1), mm.group(2))}')
            continue
        m = re.fullmatch(r'cdef dict (\w+)', s)
        if m:
            dictvars.add(m.group(1))
            continue
        m = re.fullmatch(r'cdef (\w+) ([\w\s,]+)', s)
        if m and m.group(1) in structs:
            for v in m.group(2).split(','):
                v = v.strip()
                if not re.fullmatch(r'\w+', v):
                    bad(k, 'unsupported declarator')
                if m.group(1) in rec_structs:
                    recvars[v] = m.group(1)
                else:
                    descvars[v] = m.group(1)
                    out.append(f'{ind}{v} = _Desc()')
            continue
        m = re.fullmatch(r'cdef (unsigned int|unsigned long long|bint) \*(\w+) = <\1 \*> PyMem_Malloc\((.+) \* sizeof\(\1\)\)', s)
        if m:
            arrays[m.group(2)] = m.group(1)
            out.append(f'{ind}{m.group(2)} = _Arr({m.group(1)!r}, {names_ok(m.group(3), k)}, {m.group(2)!r})')
            continue
        if s.startswith('cdef '):
            bad(k, 'unsupported cdef')
        # ---- buffer casts
        m = re.fullmatch(r'(\w+)\.(\w+) = \(<unsigned int\*> &(\w+)\[0\]\)\[0\]', s)
        if m and m.group(1) in descvars and m.group(3) in bufs and ('unsigned int', m.group(2)) in structs[descvars[m.group(1)]]:
            out.append(f'{ind}{m.group(1)}.{m.group(2)} = _struct.unpack_from("<I", {m.group(3)}, 0)[0]')
            continue
        m = re.fullmatch(r'(\w+)\.(\w+) = <(\w+)\*> \(&(\w+)\[0\] \+ 4\)', s)
        if m and m.group(1) in descvars and m.group(4) in bufs and ('*' + m.group(3), m.group(2)) in structs[descvars[m.group(1)]]:
            t = m.group(3)
            fl = [f for _, f in structs[t]]
            out.append(f'{ind}{m.group(1)}.{m.group(2)} = _View({m.group(4)}, 4, _st_{t}, _cls_{t}, {fl!r})')
            views[f'{m.group(1)}.{m.group(2)}'] = (t, m.group(4))
            continue
        m = re.fullmatch(r'(\w+)\.(\w+) = <(\w+)\*> \(&(\w+)\.(\w+)\[0\] \+ (\w+)\.(\w+)\)', s)
        if m and m.group(1) in descvars and m.group(4) == m.group(1) == m.group(6) and f'{m.group(4)}.{m.group(5)}' in views \
                and ('*' + m.group(3), m.group(2)) in structs[descvars[m.group(1)]] \
                and ('unsigned int', m.group(7)) in structs[descvars[m.group(1)]]:
            t = m.group(3)
            fl = [f for _, f in structs[t]]
            base = f'{m.group(4)}.{m.group(5)}'
            out.append(f'{ind}{m.group(1)}.{m.group(2)} = _View({views[base][1]}, {base}.end({m.group(6)}.{m.group(7)}), '
                       f'_st_{t}, _cls_{t}, {fl!r})')
            views[f'{m.group(1)}.{m.group(2)}'] = (t, views[base][1])
            continue
        # ---- memory
        m = re.fullmatch(r'memset\((\w+), 0, (.+) \* sizeof\((unsigned int|unsigned long long|bint)\)\)', s)
        if m and arrays.get(m.group(1)) == m.group(3):
            out.append(f'{ind}{m.group(1)}.fill0({names_ok(m.group(2), k)})')
            continue
        m = re.fullmatch(r'PyMem_Free\((\w+)\)', s)
        if m and m.group(1) in arrays:
            out.append(f'{ind}{m.group(1)}.free()')
            continue
        if re.fullmatch(r'if (not \w+)( or not \w+)*:', s) and all(v in arrays for v in re.findall(r'not (\w+)', s)):
            out.append(f'{ind}{s}')
            continue
        if s == 'raise MemoryError()':
            out.append(f'{ind}{s}')
            continue
        m = re.fullmatch(r'(\w+) = _PyDict_NewPresized\((.+)\)', s)
        if m and m.group(1) in dictvars:
            names_ok(m.group(2), k)
            out.append(f'{ind}{m.group(1)} = {{}}')
            continue
        # ---- control flow
        if s in ('try:', 'finally:', 'else:', 'break'):
            out.append(f'{ind}{s}')
            continue
        m = re.fullmatch(r'yield (\w+)', s)
        if m and m.group(1) in dictvars:
            out.append(f'{ind}{s}')
            continue
        m = re.fullmatch(r'for (\w+) in range\((.+)\):', s)
        if m and m.group(1) in ivars:
            out.append(f'{ind}for {m.group(1)} in range({names_ok(m.group(2), k)}):')
            continue
        m = re.fullmatch(r'(while|if) (.+):', s)
        if m:
            out.append(f'{ind}{m.group(1)} {names_ok(m.group(2), k)}:')
            continue
        # ---- assignments
        m = re.fullmatch(r'(\w+) (=|\+=|-=) (.+)', s)
        if m and m.group(1) in ivars:
            v, op, e = m.groups()
            names_ok(e, k)
            e2 = e if op == '=' else f'{v} {op[0]} ({e})'
            out.append(f'{ind}{v} = {wrap(v, e2)}')
            if s == 'n = stack_index[stack]' and all(x in arrays for x in ('path', 'matched', 'closures')) and \
                    all(x in ivars for x in ('depth', 'path_size', 'stack')):
                out.append(f'{ind}_trace(n, depth, path, path_size, matched, closures, stack)')
                hooks.append(k + 1)
            continue
        if m and m.group(1) in recvars and m.group(2) == '=':
            # x = ptr[expr] : copies a record out of a view
            mm = re.fullmatch(r'(\w+\.\w+)\[(.+)\]', m.group(3))
            if not mm or mm.group(1) not in views or views[mm.group(1)][0] != recvars[m.group(1)]:
                bad(k, 'unsupported record load')
            out.append(f'{ind}{m.group(1)} = {mm.group(1)}[{names_ok(mm.group(2), k)}]')
            continue
        m = re.fullmatch(r'(\w+)\[(.+?)\] = (.+)', s)
        if m and (m.group(1) in arrays or m.group(1) in dictvars):
            out.append(f'{ind}{m.group(1)}[{names_ok(m.group(2), k)}] = {names_ok(m.group(3), k)}')
            continue
        bad(k, 'unsupported statement')
    return RUNTIME + '\n' + '\n'.join(out) + '\n', {'structs': structs, 'trace_hooks': hooks}


_cache = {}


def layout(repo=None):
    """(format string, size) of the packed structs as declared in the .pyx -- used by the byte-layout tie"""
    import common
    src = open(os.path.join(repo or common.REPO, 'chython/algorithms/_isomorphism.pyx')).read()
    _, info = transpile(src)
    res = {}
    for sn, fields in info['structs'].items():
        if all(t in CTYPES for t, _ in fields):
            fmt = '<' + ''.join(CTYPES[t][0] for t, _ in fields)
            res[sn] = (fmt, struct.calcsize(fmt), [f for _, f in fields])
    return res


def inject(repo=None):
    """transpile the current .pyx and install it as chython.algorithms._isomorphism; returns the module"""
    import boot  # noqa
    import common
    repo = repo or common.REPO
    if 'mod' in _cache:
        return _cache['mod']
    rel = 'chython/algorithms/_isomorphism.pyx'
    src = open(os.path.join(repo, rel)).read()
    py, info = transpile(src, rel)
    outdir = os.path.join(getattr(common, 'OUT', common.VERIF), 'build', 'pyx')   # a scratch-repo run writes into its own tree
    os.makedirs(outdir, exist_ok=True)
    path = os.path.join(outdir, '_isomorphism.py')
    with open(path, 'w') as f:
        f.write(py)
    import chython.algorithms  # noqa
    mod = types.ModuleType('chython.algorithms._isomorphism')
    mod.__file__ = path
    exec(compile(py, path, 'exec'), mod.__dict__)
    sys.modules['chython.algorithms._isomorphism'] = mod
    import chython.algorithms as alg
    alg._isomorphism = mod
    mod.TRACE_HOOKS = info['trace_hooks']      # source lines after which the loop state is observed (exactly one expected)
    _cache['mod'] = mod
    return mod


if __name__ == '__main__':
    print(transpile(open(sys.argv[1]).read(), sys.argv[1])[0])
