"""Printing live chython molecules as terms of coq/model/Graph.v"""
from coqfmt import zraw, b, lst, opt, tup


def atom_term(a):
    return (f'(mkAtom {zraw(a.atomic_number)} {opt(a.isotope, zraw)} {zraw(a.charge)} {b(a.is_radical)} '
            f'{opt(a.implicit_hydrogens, zraw)} {opt(a.stereo, b)})')


def bond_term(bd):
    return f'(mkBond {zraw(int(bd))} {opt(bd.stereo, b)})'


def mol_term(m):
    atoms = lst([tup(zraw(n), atom_term(a)) for n, a in m._atoms.items()])
    adj = lst([tup(zraw(n), lst([tup(zraw(k), bond_term(bd)) for k, bd in nb.items()])) for n, nb in m._bonds.items()])
    return f'(mkMol {atoms} {adj})'


def graph_term(adj):
    """adj: dict n -> iterable of neighbours (insertion order kept)"""
    return lst([tup(zraw(n), lst(list(ms), zraw)) for n, ms in adj.items()])


def zlist(xs):
    return lst(list(xs), zraw)
