"""No Cython in this sandbox: the .pyx codecs are run through tools/pyx2py.py (fail-closed transpiler) and injected as
the modules chython expects, so that the real mol.pack() / MoleculeContainer.unpack / ReactionContainer.pack|unpack run
end to end.  The transpiled text is kept under build/pyx/ for inspection."""
import importlib.util
import os
import sys
import types

import boot  # noqa
import common
import pyx2py

_done = {}


def inject(which=('pack', 'unpack')):
    table = {'pack': ('chython.containers._pack_v2', 'chython/containers/_pack_v2.pyx'),
             'unpack': ('chython.containers._unpack_v0v2', 'chython/containers/_unpack_v0v2.pyx')}
    out = os.path.join(common.VERIF, 'build', 'pyx')
    os.makedirs(out, exist_ok=True)
    import chython  # noqa
    for w in which:
        if w in _done:
            continue
        name, rel = table[w]
        src = open(os.path.join(common.REPO, rel)).read()
        py = pyx2py.transpile(src, rel)          # raises pyx2py.Unsupported (fail closed)
        path = os.path.join(out, name.split('.')[-1] + '.py')
        with open(path, 'w') as f:
            f.write(py)
        mod = types.ModuleType(name)
        mod.__file__ = path
        sys.modules[name] = mod
        exec(compile(py, path, 'exec'), mod.__dict__)
        _done[w] = mod
    return _done
